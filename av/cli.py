import sys

from . import env  # noqa: F401  (must be first)
from .runner import main

if __name__ == "__main__":
    sys.exit(main())
