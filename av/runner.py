"""Case runner: fans cases out to worker subprocesses, merges what the monitors observed,
classifies violations against known_findings.json, writes evidence, sets the exit code.

Exit codes: 0 held on everything explored (listed findings print KNOWN-FINDING lines),
            1 + "VIOLATION property=<id> replay=<path>" for a violation that is not listed,
            2 + "INCONCLUSIVE ..." when a deciding monitor saw nothing / a watchdog fired.
"""
from __future__ import annotations

import hashlib
import importlib
import json
import os
import subprocess
import sys
import tempfile
import time
import traceback

from . import env

VERIF = env.VERIF
NPROC = int(os.environ.get("VERIF_JOBS", "0")) or min(16, os.cpu_count() or 4)


def load_check(cid):
    return importlib.import_module(f"av.checks.{cid.lower()}")


def known_findings():
    p = os.path.join(VERIF, "known_findings.json")
    if not os.path.exists(p):
        return {"findings": [], "fixed": []}
    with open(p) as f:
        return json.load(f)


def jsonable(o):
    import numpy as np

    if isinstance(o, dict):
        return {str(k): jsonable(v) for k, v in o.items()}
    if isinstance(o, (list, tuple, set)):
        return [jsonable(v) for v in o]
    if isinstance(o, (np.floating,)):
        return float(o)
    if isinstance(o, (np.integer,)):
        return int(o)
    if isinstance(o, np.bool_):
        return bool(o)
    if isinstance(o, np.ndarray):
        return jsonable(o.tolist())
    if isinstance(o, float):
        if o != o:
            return "nan"
        if o in (float("inf"), float("-inf")):
            return "inf" if o > 0 else "-inf"
        return o
    if isinstance(o, (str, int, bool)) or o is None:
        return o
    if isinstance(o, bytes):
        return f"<{len(o)} bytes sha1={hashlib.sha1(o).hexdigest()[:12]}>"
    return repr(o)[:300]


# ------------------------------------------------------------------ worker side


_CASE_NO = [0]


def run_one(mod, case):
    """Run one case; map unexpected exceptions to violation (raised inside aspire) or
    harness error (inconclusive)."""
    t0 = time.time()
    # ambient condition: every fourth case of every check runs with the library's logger at DEBUG (records discarded), as a
    # user debugging a run would have it: debug-only code paths and every debug format string are executed there
    dbg = _CASE_NO[0] % 4 == 3
    _CASE_NO[0] += 1
    try:
        if dbg:
            with env.debug_logging():
                res = mod.run_case(case) or {}
            res.setdefault("counters", {})["cases_under_debug_logging"] = res["counters"].get("cases_under_debug_logging", 0) + 1
        else:
            res = mod.run_case(case) or {}
    except BaseException as exc:  # noqa: BLE001
        if isinstance(exc, (KeyboardInterrupt, SystemExit)):
            raise
        tb = traceback.extract_tb(exc.__traceback__)
        root = os.path.realpath(os.path.join(env.REPO, "src", "aspire"))
        in_repo = [fr for fr in tb if os.path.realpath(fr.filename).startswith(root)]
        text = "".join(traceback.format_exception(type(exc), exc, exc.__traceback__))[-2500:]
        if in_repo:
            fr = in_repo[-1]
            res = {
                "viol": [
                    {
                        "mech": f"exception/{type(exc).__name__}@{os.path.basename(fr.filename)}:{fr.name}",
                        "detail": text,
                    }
                ]
            }
        else:
            res = {"inconclusive": [f"harness-error: {text}"]}
    res.setdefault("viol", [])
    res.setdefault("counters", {})
    res.setdefault("nontrivial", [])
    res.setdefault("inconclusive", [])
    res["wall"] = time.time() - t0
    return res


def worker_main(argv):
    cid, fin, fout = argv
    cov = None
    if os.environ.get("VERIF_COVERAGE_DIR"):
        # reach map (tools/reach.py): which lines of the library the workloads of this check actually execute
        import coverage

        cov = coverage.Coverage(
            data_file=os.path.join(os.environ["VERIF_COVERAGE_DIR"], f"cov.{cid}.{os.getpid()}"),
            include=[os.path.join(os.path.realpath(env.REPO), "src", "aspire", "*")],
            branch=True,
        )
        cov.start()
        import atexit

        atexit.register(lambda: (cov.stop(), cov.save()))
    env.assert_repo()
    env.quiet()
    mod = load_check(cid)
    with open(fin) as f:
        cases = json.load(f)
    done = 0
    with open(fout, "a") as out:
        for i, case in cases:
            res = run_one(mod, case)
            res["i"] = i
            out.write(json.dumps(jsonable(res)) + "\n")
            out.flush()
            done += 1
            if done % 6 == 0 and "jax" in sys.modules:
                # every jit-compiled kernel keeps its executable mapped; long chunks otherwise end in
                # "LLVM compilation error: Cannot allocate memory" (an inconclusive worker death, not a verdict)
                try:
                    sys.modules["jax"].clear_caches()
                except Exception:  # noqa: BLE001
                    pass


# ------------------------------------------------------------------ parent side


def _spawn(cid, chunk, workdir, k):
    fin = os.path.join(workdir, f"in{k}.json")
    fout = os.path.join(workdir, f"out{k}.jsonl")
    with open(fin, "w") as f:
        json.dump(chunk, f)
    errf = open(os.path.join(workdir, f"err{k}.txt"), "w")
    cmd = [sys.executable, "-m", "av.worker", cid, fin, fout]
    p = subprocess.Popen(
        cmd,
        cwd=VERIF,
        stdout=errf,
        stderr=subprocess.STDOUT,
        env=dict(os.environ, PYTHONPATH=VERIF + os.pathsep + os.environ.get("PYTHONPATH", "")),
    )
    return {"p": p, "fout": fout, "chunk": chunk, "t0": time.time(), "k": k, "errf": errf, "workdir": workdir}


def _collect(job, results, timed_out=False):
    seen = set()
    if os.path.exists(job["fout"]):
        with open(job["fout"]) as f:
            for line in f:
                line = line.strip()
                if not line:
                    continue
                try:
                    r = json.loads(line)
                except Exception:
                    continue
                results[r["i"]] = r
                seen.add(r["i"])
    job["errf"].close()
    err = ""
    try:
        with open(os.path.join(job["workdir"], f"err{job['k']}.txt")) as f:
            err = f.read()[-1500:]
    except Exception:
        pass
    for i, _case in job["chunk"]:
        if i not in seen:
            why = "watchdog: worker timed out" if timed_out else f"worker died rc={job['p'].returncode}: {err}"
            results[i] = {"i": i, "viol": [], "counters": {}, "nontrivial": [], "inconclusive": [why], "wall": 0.0}


def run_cases(cid, mod, cases, jobs=None, chunk_timeout=None):
    jobs = jobs or NPROC
    n = len(cases)
    indexed = list(enumerate(cases))
    per_chunk = getattr(mod, "CHUNK", None) or max(1, min(200, -(-n // (jobs * 3))))
    chunks = [indexed[i : i + per_chunk] for i in range(0, n, per_chunk)]
    timeout = chunk_timeout or getattr(mod, "CHUNK_TIMEOUT", 900)
    results = {}
    workdir = tempfile.mkdtemp(prefix=f"av-{cid}-")
    running = []
    k = 0
    try:
        while chunks or running:
            while chunks and len(running) < jobs:
                running.append(_spawn(cid, chunks.pop(0), workdir, k))
                k += 1
            time.sleep(0.05)
            still = []
            for job in running:
                rc = job["p"].poll()
                if rc is not None:
                    _collect(job, results)
                elif time.time() - job["t0"] > timeout:
                    job["p"].kill()
                    job["p"].wait()
                    _collect(job, results, timed_out=True)
                else:
                    still.append(job)
            running = still
    finally:
        for job in running:
            try:
                job["p"].kill()
            except Exception:
                pass
        import shutil

        shutil.rmtree(workdir, ignore_errors=True)
    return [results[i] for i in range(n)]


def run_inline(mod, cases):
    out = []
    for i, c in enumerate(cases):
        r = jsonable(run_one(mod, c))
        r["i"] = i
        out.append(r)
    return out


def finish(cid, mod, tier, seed, cases, results, t0, extra_viol=None, extra_cov=None, extra_inconclusive=None):
    counters = {}
    nontrivial = set()
    samples = []
    viols = []
    inconcl = list(extra_inconclusive or [])
    for case, r in zip(cases, results):
        for k, v in (r.get("counters") or {}).items():
            if isinstance(v, (int, float)):
                counters[k] = counters.get(k, 0) + v
        for key in r.get("nontrivial") or []:
            nontrivial.add(key if isinstance(key, str) else json.dumps(key, sort_keys=True))
        if r.get("sample") is not None and len(samples) < 6:
            samples.append({"case": case, "observed": r["sample"]})
        for v in r.get("viol") or []:
            viols.append({"case": case, **v})
        for m in r.get("inconclusive") or []:
            inconcl.append({"case": case, "why": m})
    for v in extra_viol or []:
        viols.append(v)

    required = getattr(mod, "REQUIRED_COUNTERS", [])
    for name in required:
        if counters.get(name, 0) <= 0:
            inconcl.append({"case": None, "why": f"deciding monitor '{name}' recorded zero events"})

    kf = known_findings()
    listed = {(f["property"], f["mech"]): f for f in kf.get("findings", [])}
    known_hit = {}
    new_viols = []
    for v in viols:
        key = (cid, v["mech"])
        if key in listed:
            known_hit.setdefault(key, []).append(v)
        else:
            new_viols.append(v)

    os.makedirs(os.path.join(VERIF, "replay"), exist_ok=True)
    os.makedirs(os.path.join(VERIF, "evidence"), exist_ok=True)
    lines = []
    for key, vs in known_hit.items():
        lines.append(f"KNOWN-FINDING: property={cid} {key[1]} :: {listed[key]['what']} (observed {len(vs)}x this run)")
    shown = set()
    for v in new_viols:
        h = hashlib.sha1(json.dumps(jsonable(v.get("case")), sort_keys=True).encode() + v["mech"].encode()).hexdigest()[:12]
        path = os.path.join(VERIF, "replay", f"{cid}-{h}.json")
        with open(path, "w") as f:
            json.dump(jsonable({"property": cid, "tier": tier, "seed": seed, **v}), f, indent=1)
        if v["mech"] not in shown or len(shown) < 20:
            lines.append(f"VIOLATION property={cid} replay={path}")
            lines.append(f"  mech={v['mech']} detail={str(v.get('detail'))[:600]}")
        shown.add(v["mech"])
    if len(new_viols) > 0:
        lines.append(f"  ({len(new_viols)} violating observations, {len({v['mech'] for v in new_viols})} distinct mechanisms)")

    if not samples:
        samples = [{"case": c} for c in cases[:3]]
    cov = {
        "evaluations": int(len(cases)),
        "distinct_nontrivial": int(len(nontrivial)),
        "rule": getattr(mod, "RULE", ""),
        "samples": jsonable(samples[:6]),
        "monitor_counters": jsonable(counters),
        "known_findings_observed": sorted(k[1] for k in known_hit),
        "inconclusive": jsonable(inconcl[:10]),
        "n_inconclusive": len(inconcl),
        "violating_mechanisms": sorted({v["mech"] for v in new_viols}),
    }
    if getattr(mod, "EXHAUSTIVE", None) is not None:
        ex = mod.EXHAUSTIVE
        cov["exhaustive"] = bool(ex(tier) if callable(ex) else ex)
    cov.update(jsonable(extra_cov or {}))
    ev = {
        "property_id": cid,
        "tier": tier,
        "seed": int(seed),
        "level": mod.LEVEL,
        "coverage": cov,
        "assumptions": list(getattr(mod, "ASSUMPTIONS", [])),
        "wall_s": round(time.time() - t0, 2),
        "violations": len(new_viols),
    }
    if not os.environ.get("VERIF_NO_EVIDENCE"):
        with open(os.path.join(VERIF, "evidence", f"{cid}.json"), "w") as f:
            json.dump(ev, f, indent=1)

    for ln in lines:
        print(ln)
    verdict = "violated" if new_viols else ("inconclusive" if inconcl else "held")
    print(
        f"[{cid}] tier={tier} seed={seed} cases={len(cases)} nontrivial={len(nontrivial)} "
        f"violations={len(new_viols)} known={sum(len(v) for v in known_hit.values())} inconclusive={len(inconcl)} "
        f"wall={ev['wall_s']}s verdict={verdict}"
    )
    slow = sorted(((r.get("wall", 0.0), i) for i, r in enumerate(results)), reverse=True)[:3]
    print(f"[{cid}] slowest cases: " + ", ".join(f"#{i}:{w:.0f}s" for w, i in slow))
    ck = ", ".join(f"{k}={int(v) if float(v).is_integer() else round(v,3)}" for k, v in sorted(counters.items())[:40])
    print(f"[{cid}] monitors: {ck}")
    if new_viols:
        return 1
    if inconcl:
        for m in inconcl[:5]:
            print(f"INCONCLUSIVE property={cid} {str(m['why'])[:800]}")
        return 2
    return 0


def main(argv=None):
    import argparse

    ap = argparse.ArgumentParser()
    ap.add_argument("cid")
    ap.add_argument("--tier", default=os.environ.get("VERIF_TIER", "quick"), choices=["quick", "thorough"])
    ap.add_argument("--seed", type=int, default=int(os.environ.get("VERIF_SEED", "0") or 0))
    ap.add_argument("--replay", default=None)
    ap.add_argument("--jobs", type=int, default=None)
    ap.add_argument("--inline", action="store_true")
    ap.add_argument("--limit", type=int, default=None)
    a = ap.parse_args(argv)
    cid = a.cid.upper()
    t0 = time.time()
    env.assert_repo()
    env.quiet()
    mod = load_check(cid)
    if a.replay:
        with open(a.replay) as f:
            rec = json.load(f)
        case = rec.get("case")
        if case is None:
            print("replay file holds an aggregate violation (no single case); re-run the tier with seed", rec.get("seed"))
            return 2
        r = run_one(mod, case)
        print(json.dumps(jsonable(r), indent=1)[:20000])
        bad = [v for v in r["viol"]]
        for v in bad:
            print(f"VIOLATION property={cid} replay={a.replay}")
        return 1 if bad else 0
    cases = mod.cases(a.tier, a.seed)
    if a.limit:
        cases = cases[: a.limit]
    if a.inline:
        results = run_inline(mod, cases)
    else:
        results = run_cases(cid, mod, cases, jobs=a.jobs)
    extra_viol, extra_cov, extra_inc = [], {}, []
    if hasattr(mod, "finalize"):
        out = mod.finalize(cases, results, a.tier, a.seed) or {}
        extra_viol = out.get("viol", [])
        extra_cov = out.get("coverage", {})
        extra_inc = out.get("inconclusive", [])
    return finish(cid, mod, a.tier, a.seed, cases, results, t0, extra_viol, extra_cov, extra_inc)


if __name__ == "__main__":
    sys.exit(main())
