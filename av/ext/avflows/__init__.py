"""Analytic proposals implementing aspire's Flow interface (closed-form log_prob, own seeded
generator, trivial fit, HDF5 save/load).  Registered as flow back-ends avnp / avtorch / avjax."""
from .core import AnalyticBase  # noqa: F401
