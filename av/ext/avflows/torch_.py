import array_api_compat.torch as _xp

from .core import AnalyticBase


class AnalyticTorch(AnalyticBase):
    xp = _xp
    backend_name = "torch"
