import math
import pickle

import numpy as np
from scipy import special

from aspire.flows.base import Flow
from aspire.history import FlowHistory

FIT_COUNTER = [0]


def _np(a):
    if hasattr(a, "detach"):
        a = a.detach().cpu().numpy()
    return np.asarray(a)


class AnalyticBase(Flow):
    """Independent-coordinate proposal: family in {gauss, student, tgauss}.

    gauss   : N(loc, scale^2)
    student : loc + scale * t_df
    tgauss  : N(loc, scale^2) truncated to [lower, upper] (exactly normalised)
    `fit(x)` sets loc = mean(x), scale = inflate * std(x) unless fixed=True.
    Draws come from the flow's own numpy Generator(seed); log_prob is written in the flow's
    array namespace so it is traceable under jax.
    """

    xp = None
    backend_name = None

    def __init__(
        self,
        dims,
        device=None,
        data_transform=None,
        dtype=None,
        seed=0,
        family="gauss",
        inflate=1.5,
        df=5.0,
        lower=None,
        upper=None,
        loc=None,
        scale=None,
        fixed=False,
        parameters=None,
        **kwargs,
    ):
        super().__init__(dims, device=device, data_transform=data_transform)
        from aspire.utils import resolve_dtype

        self.dtype = resolve_dtype(dtype if dtype is not None else "float64", self.xp)
        self.seed = int(seed)
        self.family = str(family)
        self.inflate = float(inflate)
        self.df = float(df)
        self.fixed = bool(fixed)
        self.parameters = parameters
        self.extra_kwargs = dict(kwargs)
        self.loc = np.zeros(dims) if loc is None else np.asarray(loc, dtype=float).reshape(dims)
        self.scale = np.ones(dims) if scale is None else np.asarray(scale, dtype=float).reshape(dims)
        self.lower = None if lower is None else np.asarray(lower, dtype=float).reshape(dims)
        self.upper = None if upper is None else np.asarray(upper, dtype=float).reshape(dims)
        self.gen = np.random.default_rng(self.seed)
        self.fit_id = 0
        self.n_draw_calls = 0
        self.n_logprob_calls = 0
        self.emitted = []  # (x_np, logq_np) of every sample_and_log_prob, for C10
        self.record_emitted = False

    # ---- helpers
    def _arr(self, a):
        return self.xp.asarray(np.asarray(a, dtype=float), dtype=self.dtype)

    def _lognorm_trunc(self):
        a = (self.lower - self.loc) / self.scale
        b = (self.upper - self.loc) / self.scale
        mass = special.ndtr(b) - special.ndtr(a)
        return np.log(mass)

    def support_mass(self, lower, upper):
        """P_q(lower <= x <= upper) in closed form (product over coordinates)."""
        lower = np.asarray(lower, float)
        upper = np.asarray(upper, float)
        if self.family == "gauss":
            m = special.ndtr((upper - self.loc) / self.scale) - special.ndtr((lower - self.loc) / self.scale)
        elif self.family == "student":
            from scipy import stats

            m = stats.t.cdf((upper - self.loc) / self.scale, self.df) - stats.t.cdf((lower - self.loc) / self.scale, self.df)
        else:
            lo = np.maximum(lower, self.lower)
            hi = np.minimum(upper, self.upper)
            m = (special.ndtr((hi - self.loc) / self.scale) - special.ndtr((lo - self.loc) / self.scale)) / np.exp(self._lognorm_trunc())
            m = np.clip(m, 0, 1)
        return float(np.prod(m))

    # ---- Flow interface
    def fit(self, x, **kwargs):
        x = _np(x).astype(float)
        if not self.fixed:
            self.loc = x.mean(axis=0)
            s = x.std(axis=0)
            s = np.where(s > 0, s, 1.0)
            self.scale = self.inflate * s
        FIT_COUNTER[0] += 1
        self.fit_id = FIT_COUNTER[0]
        if self.data_transform is not None:
            try:
                self.data_transform.fit(self.xp.asarray(x, dtype=self.dtype))
            except Exception:
                pass
        return FlowHistory(training_loss=[0.0], validation_loss=[0.0])

    def log_prob(self, x, xp=None):
        self.n_logprob_calls += 1
        X = self.xp
        x = X.asarray(x, dtype=self.dtype)
        if x.ndim == 1:
            x = x[None, :]
        loc = self._arr(self.loc)
        scale = self._arr(self.scale)
        u = (x - loc) / scale
        if self.family in ("gauss", "tgauss"):
            lp = -0.5 * u * u - X.log(scale) - 0.5 * math.log(2 * math.pi)
            lp = X.sum(lp, axis=-1)
            if self.family == "tgauss":
                lp = lp - float(self._lognorm_trunc().sum())
                inside = X.all((x >= self._arr(self.lower)) & (x <= self._arr(self.upper)), axis=-1)
                lp = X.where(inside, lp, X.asarray(-math.inf, dtype=self.dtype))
        elif self.family == "student":
            nu = self.df
            c = special.gammaln((nu + 1) / 2) - special.gammaln(nu / 2) - 0.5 * math.log(nu * math.pi)
            lp = float(c) - 0.5 * (nu + 1) * X.log1p(u * u / nu) - X.log(scale)
            lp = X.sum(lp, axis=-1)
        else:
            raise ValueError(self.family)
        return lp

    def _draw(self, n):
        d = self.dims
        if self.family == "gauss":
            x = self.loc + self.scale * self.gen.standard_normal((n, d))
        elif self.family == "student":
            x = self.loc + self.scale * self.gen.standard_t(self.df, size=(n, d))
        else:
            a = special.ndtr((self.lower - self.loc) / self.scale)
            b = special.ndtr((self.upper - self.loc) / self.scale)
            uu = a + (b - a) * self.gen.uniform(size=(n, d))
            x = self.loc + self.scale * special.ndtri(np.clip(uu, 1e-300, 1 - 1e-16))
            x = np.clip(x, self.lower, self.upper)
        return x

    def sample_and_log_prob(self, n_samples, xp=None):
        self.n_draw_calls += 1
        x = self._draw(int(n_samples))
        xa = self.xp.asarray(x, dtype=self.dtype)
        lq = self.log_prob(xa)
        if self.record_emitted:
            self.emitted.append((_np(xa).copy(), _np(lq).copy()))
        return xa, lq

    def sample(self, n_samples, xp=None):
        return self.sample_and_log_prob(n_samples)[0]

    # ---- persistence
    def save(self, h5_file, path="flow"):
        grp = h5_file.create_group(path)
        grp.attrs["class"] = type(self).__name__
        grp.attrs["family"] = self.family
        grp.attrs["dims"] = self.dims
        grp.attrs["seed"] = self.seed
        grp.attrs["inflate"] = self.inflate
        grp.attrs["df"] = self.df
        grp.attrs["fixed"] = self.fixed
        grp.attrs["fit_id"] = self.fit_id
        from aspire.utils import _dtype_to_name

        grp.attrs["dtype"] = _dtype_to_name(self.dtype)
        grp.create_dataset("loc", data=self.loc)
        grp.create_dataset("scale", data=self.scale)
        if self.lower is not None:
            grp.create_dataset("lower", data=self.lower)
            grp.create_dataset("upper", data=self.upper)
        grp.create_dataset("gen_state", data=np.void(pickle.dumps(self.gen.bit_generator.state)))

    @classmethod
    def load(cls, h5_file, path="flow"):
        grp = h5_file[path]
        kw = dict(
            dims=int(grp.attrs["dims"]),
            seed=int(grp.attrs["seed"]),
            family=str(grp.attrs["family"]),
            inflate=float(grp.attrs["inflate"]),
            df=float(grp.attrs["df"]),
            fixed=bool(grp.attrs["fixed"]),
            dtype=str(grp.attrs["dtype"]),
            loc=grp["loc"][()],
            scale=grp["scale"][()],
        )
        if "lower" in grp:
            kw["lower"] = grp["lower"][()]
            kw["upper"] = grp["upper"][()]
        obj = cls(**kw)
        obj.fit_id = int(grp.attrs["fit_id"])
        obj.gen.bit_generator.state = pickle.loads(grp["gen_state"][()].tobytes())
        return obj
