import array_api_compat.numpy as _xp

from .core import AnalyticBase


class AnalyticNumpy(AnalyticBase):
    xp = _xp
    backend_name = "numpy"
