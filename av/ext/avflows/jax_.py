import jax

jax.config.update("jax_enable_x64", True)
import jax.numpy as _xp  # noqa: E402

from .core import AnalyticBase  # noqa: E402


class AnalyticJax(AnalyticBase):
    xp = _xp
    backend_name = "jax"
