"""aspire-verif: runtime-monitoring harness for mj-will/aspire (see /verif/DESIGN.md)."""
