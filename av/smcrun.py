"""Shared SMC instrumentation: L2 recording wrappers on the real SMC mechanics, scripted
populations (prescribed rows + table-lookup likelihood + identity kernel) and a run helper with
logical-step watchdog."""
from __future__ import annotations

import functools
import inspect
import math

import numpy as np

from . import env
from .harness import InjectedInterrupt, to_np


class StallDetected(RuntimeError):
    pass


class Recorder:
    def __init__(self, abort_on_stall=True, keep_vectors=True):
        self.abort_on_stall = abort_on_stall
        self.keep_vectors = keep_vectors
        self.beta_calls = []  # dicts
        self.events = []  # ("ratio"|"ratio_var"|"resample"|"mutate", ...)
        self.stall = None
        self.cur_beta = None
        self.cur_beta_arg = None
        self.n_mutate = 0
        self.resamples = []  # dict(src=pop dict, beta_from, beta_to, n_req, out=pop dict)
        self.keep_resample_pops = False
        self.mutated = []  # populations returned by the kernel step, in order
        self.keep_mutated = True


REC: Recorder | None = None
_INSTALLED = False


def _pop_vec(samples):
    ll = np.asarray(to_np(samples.log_likelihood), dtype=float)
    lp = np.asarray(to_np(samples.log_prior), dtype=float)
    lq = np.asarray(to_np(samples.log_q), dtype=float)
    return ll + lp - lq


def install():
    """Idempotently wrap the real mechanics with recording contracts (class-level)."""
    global _INSTALLED
    if _INSTALLED:
        return
    from aspire.samplers.smc.base import SMCSampler
    from aspire.samples import SMCSamples

    orig_db = SMCSampler.determine_beta
    sig_db = inspect.signature(orig_db)

    @functools.wraps(orig_db)
    def determine_beta(self, *args, **kwargs):
        # signature-transparent: the wrapper must keep working if the wrapped function grows a parameter
        out = orig_db(self, *args, **kwargs)
        r = REC
        if r is not None:
            ba = sig_db.bind(self, *args, **kwargs)
            ba.apply_defaults()
            samples, beta, min_step, beta_tolerance = ba.arguments["samples"], ba.arguments["beta"], ba.arguments["min_step"], ba.arguments["beta_tolerance"]
            new_beta, new_min = out
            rec = {
                "beta_prev": float(beta),
                "beta_new": float(to_np(new_beta)),
                "min_step_in": None if min_step is None else float(min_step),
                "min_step_out": None if new_min is None else float(new_min),
                "tol": float(beta_tolerance),
                "adaptive": bool(getattr(self, "adaptive", False)),
                "adaptive_min_step": bool(getattr(self, "adaptive_min_step", False)),
                "target": getattr(self, "_target_efficiency", None),
                "target_rate": getattr(self, "target_efficiency_rate", None),
                "n": len(samples),
                "pop_beta": float(samples.beta),
            }
            if r.keep_vectors:
                rec["s"] = _pop_vec(samples)
                rec["dtype"] = str(to_np(samples.log_likelihood).dtype)
            r.beta_calls.append(rec)
            if rec["beta_new"] > 1.0:
                # a temperature beyond 1 is a violation witness by itself (and such a schedule never meets its exit test)
                r.stall = {"beta_prev": rec["beta_prev"], "beta_new": rec["beta_new"], "iteration": len(r.beta_calls), "overshoot": True}
                if r.abort_on_stall:
                    raise StallDetected(f"beta above one: {rec['beta_prev']!r} -> {rec['beta_new']!r}")
            if not (rec["beta_new"] > rec["beta_prev"]) and rec["beta_prev"] < 1.0:
                r.stall = {"beta_prev": rec["beta_prev"], "beta_new": rec["beta_new"], "iteration": len(r.beta_calls)}
                if r.abort_on_stall:
                    raise StallDetected(f"beta did not increase: {rec['beta_prev']!r} -> {rec['beta_new']!r}")
        return out

    SMCSampler.determine_beta = determine_beta

    orig_ratio = SMCSamples.log_evidence_ratio

    @functools.wraps(orig_ratio)
    def log_evidence_ratio(self, beta, *args, **kwargs):
        out = orig_ratio(self, beta, *args, **kwargs)
        if REC is not None:
            REC.events.append(("ratio", id(self), float(self.beta), float(beta), float(to_np(out))))
        return out

    SMCSamples.log_evidence_ratio = log_evidence_ratio

    orig_res = SMCSamples.resample
    sig_res = inspect.signature(orig_res)

    @functools.wraps(orig_res)
    def resample(self, *args, **kwargs):
        out = orig_res(self, *args, **kwargs)
        if REC is not None:
            ba = sig_res.bind(self, *args, **kwargs)
            ba.apply_defaults()
            beta, n_samples, rng = ba.arguments["beta"], ba.arguments.get("n_samples"), ba.arguments.get("rng")
            REC.events.append(("resample", id(self), float(self.beta), float(beta), n_samples, id(out), id(rng)))
            if REC.keep_resample_pops:
                from .harness import pop_to_np

                REC.resamples.append({"src": pop_to_np(self), "beta_to": float(beta), "n_req": n_samples, "out": pop_to_np(out), "same_obj": out is self})
        return out

    SMCSamples.resample = resample

    def wrap_mutate(cls):
        orig = cls.__dict__.get("mutate")
        if orig is None:
            return

        @functools.wraps(orig)
        def mutate(self, particles, beta, *args, **kwargs):
            r = REC
            if r is not None:
                # the temperature of the population being moved is the one it carries (set by the resampling that produced
                # it); the argument handed to mutate is recorded separately so that a disagreement is observable
                pb = getattr(particles, "beta", None)
                r.cur_beta = float(beta) if pb is None else float(to_np(pb))
                r.cur_beta_arg = float(beta)
                r.n_mutate += 1
                r.events.append(("mutate", id(particles), float(beta)))
            try:
                out = orig(self, particles, beta, *args, **kwargs)
                if r is not None and r.keep_mutated:
                    from .harness import pop_to_np

                    r.mutated.append(pop_to_np(out))
                return out
            finally:
                if r is not None:
                    r.cur_beta = None

        cls.mutate = mutate

    from aspire.samplers.smc.emcee import EmceeSMC
    from aspire.samplers.smc.minipcn import MiniPCNSMC

    wrap_mutate(MiniPCNSMC)
    wrap_mutate(EmceeSMC)
    try:
        from aspire.samplers.smc.blackjax import BlackJAXSMC

        wrap_mutate(BlackJAXSMC)
    except Exception:  # noqa: BLE001
        pass
    _INSTALLED = True


# ------------------------------------------------------------------ scripted populations


class ScriptedFlow:
    """Duck-typed proposal: row i has coordinate x=i and log_q = lq[i]."""

    def __init__(self, lq, xp, dtype):
        self.lq = np.asarray(lq, dtype=float)
        self.xp = xp
        self.dtype = dtype
        self.n_draws = 0

    def _idx(self, x):
        return np.rint(np.asarray(to_np(x), dtype=float)[:, 0]).astype(int)

    def sample_and_log_prob(self, n):
        self.n_draws += 1
        if n != len(self.lq):
            raise ValueError(f"scripted flow holds {len(self.lq)} rows, asked for {n}")
        x = np.arange(n, dtype=float)[:, None]
        return self.xp.asarray(x, dtype=self.dtype), self.xp.asarray(self.lq, dtype=self.dtype)

    def log_prob(self, x):
        return self.xp.asarray(self.lq[self._idx(x)], dtype=self.dtype)

    def fit(self, x, **kw):
        return None


class Scripted:
    def __init__(self, ll, lq=None, lp=None, xp_name="numpy", dtype="float64"):
        from aspire.utils import resolve_dtype

        self.ll = np.asarray(ll, dtype=float)
        n = len(self.ll)
        self.lq = np.zeros(n) if lq is None else np.asarray(lq, dtype=float)
        self.lp = np.zeros(n) if lp is None else np.asarray(lp, dtype=float)
        self.xp = env.xp_of(xp_name)
        self.dtype_name = dtype
        self.dtype = resolve_dtype(dtype, self.xp)
        self.flow = ScriptedFlow(self.lq, self.xp, self.dtype)
        self.n_like_rows = 0

    def _idx(self, samples):
        return np.rint(np.asarray(to_np(samples.x), dtype=float)[:, 0]).astype(int)

    def log_likelihood(self, samples):
        i = self._idx(samples)
        self.n_like_rows += len(i)
        return self.xp.asarray(self.ll[i], dtype=self.dtype)

    def log_prior(self, samples):
        return self.xp.asarray(self.lp[self._idx(samples)], dtype=self.dtype)

    def aspire(self):
        from aspire import Aspire

        return Aspire(
            log_likelihood=self.log_likelihood,
            log_prior=self.log_prior,
            dims=1,
            parameters=["i"],
            flow=self.flow,
            xp=self.xp,
            dtype=self.dtype_name,
        )


def gen_weights(g, n, kind, spread):
    if kind == "gauss":
        z = g.standard_normal(n)
    elif kind == "heavy":
        z = np.clip(g.standard_cauchy(n), -200, 200)
    elif kind == "bimodal":
        z = np.where(g.random(n) < 0.5, -2.0, 2.0) + 0.2 * g.standard_normal(n)
    elif kind == "outlier":
        z = g.standard_normal(n)
        z[g.integers(n)] += 30.0
    elif kind == "ties":
        z = np.round(g.standard_normal(n))
    elif kind == "peaked":  # -0.5 (x/sigma)^2 like
        z = -0.5 * g.standard_normal(n) ** 2 * 10.0
    else:
        z = g.standard_normal(n)
    return spread * z


class RunResult:
    def __init__(self):
        self.samples = None
        self.history = None
        self.exc = None
        self.exc_type = None
        self.kernel_calls = 0
        self.rec = None
        self.sampler = None


def run(aspire, n, sampler="smc", opts=None, identity=False, max_calls=20000, rec: Recorder | None = None):
    """Run sample_posterior under the recorder and the logical-step watchdog."""
    global REC
    import emcee
    import minipcn

    install()
    res = RunResult()
    res.rec = rec or Recorder()
    REC = res.rec
    minipcn.IDENTITY = emcee.IDENTITY = identity
    minipcn.N_CALLS = emcee.N_CALLS = 0
    minipcn.MAX_CALLS = emcee.MAX_CALLS = max_calls
    try:
        out = aspire.sample_posterior(n, sampler=sampler, return_history=True, **(opts or {}))
        res.samples, res.history = out
    except BaseException as exc:  # noqa: BLE001
        if isinstance(exc, (KeyboardInterrupt, SystemExit)) and not isinstance(exc, InjectedInterrupt):
            raise
        res.exc = exc
        res.exc_type = type(exc).__name__
        res.history = getattr(aspire.sampler, "history", None) if aspire.sampler is not None else None
    finally:
        REC = None
        res.kernel_calls = minipcn.N_CALLS + emcee.N_CALLS
        minipcn.IDENTITY = emcee.IDENTITY = False
        minipcn.MAX_CALLS = emcee.MAX_CALLS = None
        res.sampler = aspire.sampler
    return res


def run_again(aspire, n, opts=None, identity=False, max_calls=20000, rec: Recorder | None = None):
    """A further fresh run on the sampler object the previous sample_posterior call built (sampler.sample directly)."""
    global REC
    import emcee
    import minipcn

    install()
    res = RunResult()
    res.rec = rec or Recorder()
    sampler = aspire.sampler
    accepted = inspect.signature(sampler.sample).parameters
    kw = {k: v for k, v in (opts or {}).items() if k in accepted and k not in ("preconditioning", "preconditioning_kwargs")}
    REC = res.rec
    minipcn.IDENTITY = emcee.IDENTITY = identity
    minipcn.N_CALLS = emcee.N_CALLS = 0
    minipcn.MAX_CALLS = emcee.MAX_CALLS = max_calls
    try:
        res.samples = sampler.sample(n, **kw)
        res.history = sampler.history
    except BaseException as exc:  # noqa: BLE001
        if isinstance(exc, (KeyboardInterrupt, SystemExit)) and not isinstance(exc, InjectedInterrupt):
            raise
        res.exc = exc
        res.exc_type = type(exc).__name__
        res.history = getattr(sampler, "history", None)
    finally:
        REC = None
        res.kernel_calls = minipcn.N_CALLS + emcee.N_CALLS
        minipcn.IDENTITY = emcee.IDENTITY = False
        minipcn.MAX_CALLS = emcee.MAX_CALLS = None
        res.sampler = sampler
    return res


def ref_ess_curve(s, delta):
    """ESS of weights exp(delta * s) in float64 (shift-invariant)."""
    a = delta * np.asarray(s, dtype=float)
    a = a[~np.isnan(a)]
    m = np.max(a)
    u = np.exp(a - m)
    return float(u.sum() ** 2 / np.sum(u * u))


def ref_log_mean_exp(a):
    a = np.asarray(a, dtype=float)
    m = np.max(a)
    if not np.isfinite(m):
        return float(m)
    return float(m + math.log(np.sum(np.exp(a - m))) - math.log(len(a)))
