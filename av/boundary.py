"""Workload shared by C10 (cached log-densities belong to the row) and C17 (prior before
likelihood, evaluation count): runs of every sampler type with instrumented user callables, a
proposal that records every (row, log_q) pair it emits, out-of-prior fractions 0..95 %, all
preconditioning options, namespaces, enlargement and resume."""
from __future__ import annotations

import math
import pickle

import numpy as np

from . import recorded, smcrun
from .harness import Probe, pop_to_np, to_np
from .targets import Coord, Target

SAMPLERS = ["importance", "smc", "smc", "emcee_smc", "blackjax_smc", "minipcn", "emcee"]


def gen_case_cfg(g):
    d = int(g.integers(1, 4))
    coords = []
    for _ in range(d):
        lo = float(g.uniform(-6, 0))
        hi = lo + float(g.uniform(3, 9))
        coords.append(Coord("box", lo, hi, float(g.uniform(lo + 0.2 * (hi - lo), hi - 0.2 * (hi - lo))), float(g.uniform(0.4, 1.2))))
    if g.random() < 0.25:
        coords[0] = Coord("vonmises", 0.0, 2 * math.pi, float(g.choice([0.0, 0.05, 1.0])), float(g.uniform(1, 4)))
    t = Target(coords)
    sampler = SAMPLERS[g.integers(len(SAMPLERS))]
    xpn = "jax" if sampler == "blackjax_smc" else str(g.choice(["numpy", "numpy", "torch", "jax"]))
    cfg = recorded.default_cfg(g, target=t.describe(), sampler=sampler, xp=xpn, dtype=[None, None, "float64", "float32"][g.integers(4)], n=int(g.integers(10, 48)))
    if sampler == "blackjax_smc":
        cfg["dtype"] = None
        cfg["n"] = int(g.integers(8, 20))
    cfg["precond"] = recorded.random_precond(g, t) if sampler != "importance" else {"preconditioning": None, "kwargs": {}}
    # out-of-prior fraction of the proposal: 0 (truncated), moderate, or most draws outside
    mode = str(g.choice(["inside", "half", "mostly_out"]))
    cfg["outside_mode"] = mode
    if mode == "inside":
        cfg["flow"] = {"truncate": True, "widen": float(g.uniform(1.5, 3))}
    elif mode == "half":
        cfg["flow"] = {"truncate": False, "widen": float(g.uniform(2.5, 5)), "shift": float(g.uniform(-2, 2))}
    else:
        cfg["flow"] = {"truncate": False, "widen": float(g.uniform(8, 16)), "shift": float(g.uniform(-3, 3))}
    if sampler.endswith("smc"):
        q = g.random()
        if q < 0.3:
            cfg["opts"] = {"adaptive": False, "n_steps": int(g.integers(1, 5))}
        if g.random() < 0.4:
            cfg["opts"]["n_final_samples"] = int(g.choice([max(2, cfg["n"] // 2), 2 * cfg["n"] + 1]))
    else:
        cfg["opts"] = {}
    if g.random() < 0.3 and sampler != "blackjax_smc" and coords[0].kind == "box":
        # likelihood exactly zero on part of the prior support (zero-weight particles)
        cfg["cut_below"] = float(coords[0].mu - g.uniform(0.0, 1.5) * coords[0].s)
    cfg["recipe"] = bool(g.random() < 0.5) and sampler != "blackjax_smc"
    # (read by C10 only) the user's prior returns NaN, not -inf, outside its support
    cfg["prior_nan_outside"] = bool(g.random() < 0.15) and sampler != "blackjax_smc"
    cfg["resume"] = bool(sampler == "smc" and g.random() < 0.5)
    return cfg


class DegenerateWorkload(Exception):
    """The run collapsed to identical particles in some coordinate; the affine preconditioning (x - mean) / std is then
    undefined and the library's own NaN guard stops the run. Outside what C10 / C17 state; counted, not judged."""


def _collapsed(a, exc):
    if not isinstance(exc, ValueError) or "NaN" not in str(exc):
        return False
    try:
        aff = getattr(a._sampler.preconditioning_transform, "_affine_transform", None)
        std = None if aff is None else np.asarray(to_np(aff._std), dtype=float)
        return std is not None and bool((std == 0).any())
    except Exception:  # noqa: BLE001
        return False


def execute(cfg):
    """Run the configuration; returns dict with populations to judge and probe statistics."""
    import jax  # noqa: F401  (x64 flag set by env)

    t = Target.from_desc(cfg["target"])
    probe = Probe(t, recipe=cfg.get("recipe", False), cut_below=cfg.get("cut_below"), prior_nan_outside=cfg.get("prior_nan_outside", False))
    t, a, probe = recorded.build(cfg, probe=probe)
    a.flow.record_emitted = True
    sampler = cfg["sampler"]
    out = {"cfg": cfg, "target": t, "pops": [], "probe": probe, "aspire": a, "flow": a.flow, "reported": None, "exc": None}
    if sampler in ("smc", "emcee_smc", "blackjax_smc"):
        r = recorded.record(cfg, aspire=a, probe=probe)
        if r.exc is not None:
            if _collapsed(a, r.exc):
                raise DegenerateWorkload(str(r.exc)) from r.exc
            raise r.exc
        out["run"] = r
        out["history_pops"] = r.pops
        out["final"] = r.final
        out["payload_pops"] = [(p["iteration"], pop_to_np(pickle.loads(p["bytes"])["samples"])) for p in r.payloads]
        out["reported"] = a.n_likelihood_evaluations
        out["like_rows"] = probe.like_rows
        if cfg.get("resume") and len(r.payloads) >= 2:
            pay = r.payloads[len(r.payloads) // 2 - 1]
            probe2 = Probe(t, recipe=cfg.get("recipe", False), cut_below=cfg.get("cut_below"), prior_nan_outside=cfg.get("prior_nan_outside", False))
            t2, a2, probe2 = recorded.build(cfg, probe=probe2)
            r2 = recorded.record(cfg, aspire=a2, probe=probe2, rng=np.random.default_rng(999), resume_from=pay["bytes"])
            if r2.exc is not None:
                if _collapsed(a2, r2.exc):
                    raise DegenerateWorkload(str(r2.exc)) from r2.exc
                raise r2.exc
            out["resumed"] = {"run": r2, "probe": probe2, "reported": a2.n_likelihood_evaluations, "from_iteration": pay["iteration"], "flow": a2.flow}
    else:
        kw = {}
        pc = cfg.get("precond") or {}
        if sampler != "importance" and pc.get("preconditioning") is not None:
            kw["preconditioning"] = pc["preconditioning"]
            if pc.get("kwargs"):
                kw["preconditioning_kwargs"] = dict(pc["kwargs"])
        if sampler == "minipcn":
            kw.update(n_steps=3, rng=np.random.default_rng(cfg["rng_seed"]))
        elif sampler == "emcee":
            np.random.seed(cfg["rng_seed"] % 2**32)
            kw.update(nsteps=3)
        res = smcrun.run(a, cfg["n"], sampler, kw, identity=False, max_calls=2000)
        if res.exc is not None:
            raise res.exc
        out["final"] = pop_to_np(res.samples)
        out["history_pops"] = []
        out["payload_pops"] = []
        out["reported"] = a.n_likelihood_evaluations
        out["like_rows"] = probe.like_rows
    return out


def execute_with_fault(cfg, k):
    """The same configuration with the user's likelihood failing at its k-th call (SMC samplers and importance sampling).
    Returns (probe, reported count read from the instance after the failure, exception or None)."""
    t = Target.from_desc(cfg["target"])
    probe = Probe(t, recipe=cfg.get("recipe", False), cut_below=cfg.get("cut_below"), fault_like_at=int(k))
    t, a, probe = recorded.build(cfg, probe=probe)
    sampler = cfg["sampler"]
    if sampler in ("smc", "emcee_smc", "blackjax_smc"):
        r = recorded.record(cfg, aspire=a, probe=probe)
        exc = r.exc
    else:
        res = smcrun.run(a, cfg["n"], sampler, {}, identity=False, max_calls=2000)
        exc = res.exc
    return probe, a.n_likelihood_evaluations, exc
