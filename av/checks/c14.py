"""C14 - a checkpoint file stays self-consistent under any sequence of operations.

All operation sequences up to a bound over {fit A / fit B / refit with overwrite, sample with
importance / SMC, enter / leave auto_checkpoint (also nested, to a second file), resume-from-file}
are executed against real files with the analytic entry-point proposal (whose fit really changes
the density).  After EVERY operation each file is opened read-only and probed: whenever
/checkpoint/state exists, the proposal stored in the file must reproduce the stored log_q of the
checkpoint's particles and /aspire_config must name the sampler that wrote the checkpoint; at the
end of the sequence resume_from_file + sample must run.
"""
from __future__ import annotations

import itertools
import os
import pickle

import numpy as np

from .. import env, smcrun
from ..harness import Probe, rm_tmp, tmpfile, to_np
from ..targets import Coord, Target

ID = "C14"
LEVEL = "exploration"
RULE = (
    "alphabet = {fitA, fitB, fitBo(overwrite), is, smc, E (enter auto_checkpoint(file1)), E2 (enter nested auto_checkpoint(file2)), X (leave), R "
    "(resume_from_file(file1)), smc2 / fitB2 (explicit checkpoint_path=file2 whatever context is active), is0 / fit0 (no file named: outside a context only the object's state changes)}; all valid sequences up to length 3 (quick) / 4 "
    "(thorough) plus seeded random and structured (outer context - nested refit - outer sampling) sequences up to length 12; operations outside a context pass the path explicitly. non-trivial = sequence containing >=1 SMC run and >=1 later operation touching the same file; "
    "distinct = the sequence itself"
)
ASSUMPTIONS = [
    "analytic entry-point proposal whose fit() moves its location/scale (so stale proposals are observable); real zuko/flowjax flows on a thorough subset",
    "log_q agreement tolerance 1e-9*(1+|log_q|)",
]
REQUIRED_COUNTERS = ["sequences", "operations", "file_probes_with_checkpoint", "final_resumes"]
EXHAUSTIVE = lambda tier: True  # noqa: E731

TOKENS = ["fitA", "fitB", "fitBo", "is", "smc", "E", "E2", "X", "R", "smc2", "fitB2", "is0", "fit0", "fitBx", "smcX", "init"]
# smcX: an SMC run into the active file that is interrupted by an exception from the likelihood (caught by the caller)
# fitBx: a refit whose update of file1 fails (the file is held open elsewhere); the caller catches the error and carries on
# is0 / fit0: the operation names no file at all (outside a context it touches no file and only changes the object's state)
# init: the proposal is built anew (Aspire.init_flow()); it has to be fitted again before the next sampling call
# smc2 / fitB2: the operation names file2 explicitly (checkpoint_path=...), whatever context is active


def valid(seq):
    depth = 0
    fitted = False
    has_file = False
    for tok in seq:
        if tok in ("E", "E2"):
            if tok == "E2" and depth == 0:
                return False
            if tok == "E" and depth > 0:
                return False
            depth += 1
        elif tok == "X":
            if depth == 0:
                return False
            depth -= 1
        elif tok == "init":
            if not fitted:
                return False
            fitted = False
        elif tok.startswith("fit"):
            fitted = True
            has_file = has_file or tok not in ("fitB2", "fit0") or depth > 0
        elif tok in ("is", "smc", "smc2", "is0", "smcX"):
            if not fitted:
                return False
            has_file = has_file or tok not in ("smc2", "is0") or depth > 0
        elif tok == "R":
            if depth != 0 or not has_file:
                return False
            fitted = True
    return True


def all_sequences(maxlen):
    out = []
    for L in range(1, maxlen + 1):
        for seq in itertools.product(TOKENS, repeat=L):
            if valid(seq) and any(t in ("is", "smc", "smc2", "smcX") for t in seq):
                out.append(list(seq))
    return out


def cases(tier, seed):
    maxlen = {"quick": 3, "thorough": 4}[tier]
    seqs = all_sequences(maxlen)
    g = np.random.default_rng([seed, 14])
    extra = []
    n_rand = {"quick": 250, "thorough": 3000}[tier]
    tries = 0
    while len(extra) < n_rand and tries < 200000:
        tries += 1
        L = int(g.integers(4, 10))
        seq = [TOKENS[i] for i in g.integers(0, len(TOKENS), L)]
        if tries % 3 == 0:
            # structured: sampling in an outer context, a refit inside a nested context (or on another file), sampling again outside
            mid = [[TOKENS[i] for i in g.integers(0, 5, int(g.integers(0, 3)))] for _ in range(3)]
            seq = [str(g.choice(["fitA", "fitB"]))] + ["E"] + mid[0] + ["smc"] + ["E2"] + mid[1] + [str(g.choice(["fitB", "fitA", "fitBo"]))] + ["X"] + mid[2] + [str(g.choice(["smc", "is", "R"]))]
        if tries % 3 == 1:
            # structured: a checkpointed run, rebuild from the file, refit on the rebuilt instance, sample again
            pre = [TOKENS[i] for i in g.integers(0, 5, int(g.integers(0, 2)))]
            seq = [str(g.choice(["fitA", "fitB"]))] + pre + ["smc", "R"] + [str(g.choice(["fitB", "fitA", "fitBo", "fitB2"]))] + [str(g.choice(["smc", "is", "smc2"]))] + [TOKENS[i] for i in g.integers(0, 5, int(g.integers(0, 2)))]
        if tries % 4 == 3:
            # structured: a checkpointed run, then operations on the object that name no file, then an operation on the file again
            mid = [str(x) for x in g.choice(["is0", "fit0"], size=int(g.integers(1, 3)))]
            seq = [str(g.choice(["fitA", "fitB"])), "smc"] + mid + [str(g.choice(["fitA", "fitB", "fitBo", "is", "E"]))] + [TOKENS[i] for i in g.integers(0, len(TOKENS), int(g.integers(0, 3)))]
        if tries % 8 == 5:
            # structured: inside one context a checkpointed run, a refit whose file update fails, another run
            seq = ["E", str(g.choice(["fitA", "fitB"])), "smc", "fitBx", str(g.choice(["smc", "is"]))] + [TOKENS[i] for i in g.integers(0, len(TOKENS), int(g.integers(0, 3)))]
        if tries % 8 == 7:
            # structured: inside a context a checkpointed run, the proposal rebuilt and fitted through another file, another run
            seq = ["E", str(g.choice(["fitA", "fitB"])), "smc", "init", str(g.choice(["fitB2", "fit0", "fitB"])), str(g.choice(["smc", "is"]))] + [TOKENS[i] for i in g.integers(0, len(TOKENS), int(g.integers(0, 2)))]
        if valid(seq) and ("smc" in seq or "smc2" in seq or "smcX" in seq):
            extra.append(seq)
    per = 12
    allseq = seqs + extra
    return [{"seqs": allseq[i : i + per], "seed": [seed, 14, i]} for i in range(0, len(allseq), per)]


def make(t, probe, xp):
    from aspire import Aspire

    return Aspire(
        log_likelihood=probe.log_likelihood,
        log_prior=probe.log_prior,
        dims=t.dims,
        parameters=list(t.parameters),
        prior_bounds={k: list(v) for k, v in t.prior_bounds.items()},
        flow_backend="avnp",
        xp=xp,
        family="gauss",
        inflate=2.0,
        fixed=False,
        seed=3,
    )


def probe_file(path, tag, viol, counters, flow_cls):
    import h5py

    from aspire.utils import load_from_h5_file

    if not os.path.exists(path):
        return
    with h5py.File(path, "r") as f:
        if "checkpoint" not in f or "state" not in f["checkpoint"]:
            return
        state = pickle.loads(f["checkpoint"]["state"][...].tobytes())
        counters["file_probes_with_checkpoint"] += 1
        if "flow" not in f:
            viol.append({"mech": "C14/checkpoint-without-proposal-in-file", "detail": tag})
            return
        flow = flow_cls.load(f, "flow")
        cfgd = load_from_h5_file(f, "aspire_config") if "aspire_config" in f else None
    s = state["samples"]
    x = np.asarray(to_np(s.x), dtype=float)
    lq = np.asarray(to_np(s.log_q), dtype=float)
    ref = np.asarray(to_np(flow.log_prob(x)), dtype=float)
    if not np.allclose(ref, lq, rtol=1e-9, atol=1e-9):
        viol.append(
            {
                "mech": "C14/file-proposal-is-not-the-one-the-checkpoint-was-weighted-under",
                "detail": f"{tag}: max |file_flow.log_prob(x) - stored log_q| = {np.max(np.abs(ref - lq)):.4g} (file proposal from fit #{flow.fit_id})",
            }
        )
    # every population recorded in the checkpoint's history was weighted under the same proposal
    hist = state.get("history")
    for k, pop in enumerate(getattr(hist, "sample_history", None) or []):
        px = np.asarray(to_np(pop.x), dtype=float)
        plq = np.asarray(to_np(pop.log_q), dtype=float)
        pref = np.asarray(to_np(flow.log_prob(px)), dtype=float)
        counters["history_populations_probed"] += 1
        if not np.allclose(pref, plq, rtol=1e-9, atol=1e-9):
            viol.append(
                {
                    "mech": "C14/checkpoint-history-mixes-populations-weighted-under-different-proposals",
                    "detail": f"{tag}: history population {k}: max |file_flow.log_prob(x) - stored log_q| = {np.max(np.abs(pref - plq)):.4g}",
                }
            )
            break
    if cfgd is None:
        viol.append({"mech": "C14/checkpoint-without-config-in-file", "detail": tag})
    else:
        from aspire import Aspire

        st = cfgd.get("sampler_type")
        try:
            cls = Aspire.get_sampler_class(None, st).__name__ if st else None
        except Exception:  # noqa: BLE001
            cls = None
        if cls != state["sampler"]:
            viol.append({"mech": "C14/config-names-a-different-sampler-than-the-checkpoint", "detail": f"{tag}: aspire_config.sampler_type={st!r} ({cls}), checkpoint written by {state['sampler']}"})


def run_sequence(seq, g, counters, viol):
    from aspire import Aspire
    from aspire.flows import get_flow_wrapper
    from aspire.samples import Samples

    xp = env.xp_of("numpy")
    flow_cls, _ = get_flow_wrapper("avnp")
    t = Target([Coord("box", -6.0, 6.0, 0.5, 0.8)])
    probe = Probe(t)
    a = make(t, probe, xp)
    f1 = tmpfile("one.h5")
    f2 = tmpfile("two.h5")
    f1s, f2s = f1, f2
    if len(seq) % 2:
        import pathlib

        f1, f2 = pathlib.Path(f1), pathlib.Path(f2)  # path objects instead of strings in half of the sequences
    gA = np.random.default_rng(1)
    data = {"A": Samples(xp.asarray(gA.normal(0.0, 1.0, (80, 1))), xp=xp, parameters=list(t.parameters)), "B": Samples(xp.asarray(gA.normal(1.5, 0.5, (80, 1))), xp=xp, parameters=list(t.parameters))}
    cms = []
    ctx_paths = []
    smc_kw = dict(adaptive=False, n_steps=2, sampler_kwargs={"n_steps": 1})
    counters["sequences"] += 1
    done = []
    try:
        for tok in seq:
            counters["operations"] += 1
            inside = bool(ctx_paths)
            if tok == "E":
                cm = a.auto_checkpoint(f1, every=1)
                cm.__enter__()
                cms.append(cm)
                ctx_paths.append(f1)
            elif tok == "E2":
                cm = a.auto_checkpoint(f2, every=1)
                cm.__enter__()
                cms.append(cm)
                ctx_paths.append(f2)
            elif tok == "X":
                cms.pop().__exit__(None, None, None)
                ctx_paths.pop()
            elif tok == "fitB2":
                a.fit(data["B"], checkpoint_path=f2)
            elif tok == "fit0":
                a.fit(data["B"])
            elif tok == "is0":
                a.sample_posterior(10, sampler="importance")
            elif tok == "smc2":
                res = smcrun.run(a, 10, "smc", dict(smc_kw, rng=np.random.default_rng(int(g.integers(2**31))), checkpoint_path=f2), max_calls=500)
                if res.exc is not None:
                    raise res.exc
            elif tok == "fitBx":
                import h5py

                holder = h5py.File(f1, "r") if os.path.exists(f1) else None
                try:
                    a.fit(data["B"], **({} if inside else {"checkpoint_path": f1}))
                    counters["refits_with_locked_file_that_did_not_fail"] += int(holder is not None)
                except OSError:
                    counters["refits_whose_file_update_failed"] += 1
                finally:
                    if holder is not None:
                        holder.close()
            elif tok == "init":
                a.init_flow()
                counters["proposals_rebuilt"] += 1
            elif tok.startswith("fit"):
                kw = {} if inside else {"checkpoint_path": f1}
                a.fit(data["A" if tok == "fitA" else "B"], overwrite=(tok == "fitBo"), **kw)
            elif tok == "is":
                kw = {} if inside else {"checkpoint_path": f1}
                a.sample_posterior(10, sampler="importance", **kw)
            elif tok == "smcX":
                kw = {} if inside else {"checkpoint_path": f1}
                probe.fault_like_at = probe.n_like_calls + int(g.integers(2, 5))
                res = smcrun.run(a, 10, "smc", dict(smc_kw, rng=np.random.default_rng(int(g.integers(2**31))), **kw), max_calls=500)
                probe.fault_like_at = None
                counters["interrupted_runs"] += int(res.exc is not None)
                if res.exc is not None and type(res.exc).__name__ != "InjectedFault":
                    raise res.exc
            elif tok == "smc":
                kw = {} if inside else {"checkpoint_path": f1}
                res = smcrun.run(a, 10, "smc", dict(smc_kw, rng=np.random.default_rng(int(g.integers(2**31))), **kw), max_calls=500)
                if res.exc is not None:
                    raise res.exc
            elif tok == "R":
                p2 = Probe(t)
                a = Aspire.resume_from_file(f1, log_likelihood=p2.log_likelihood, log_prior=p2.log_prior)
                probe = p2
            done.append(tok)
            tag = f"sequence {seq} after {done}"
            probe_file(f1, tag + " [file1]", viol, counters, flow_cls)
            probe_file(f2, tag + " [file2]", viol, counters, flow_cls)
        while cms:
            cms.pop().__exit__(None, None, None)
        ctx_paths.clear()
        tag = f"sequence {seq} after leaving all contexts"
        probe_file(f1, tag + " [file1]", viol, counters, flow_cls)
        probe_file(f2, tag + " [file2]", viol, counters, flow_cls)
        # resume from the file and sample: must run
        import h5py

        for path in (f1, f2):
            if not os.path.exists(path):
                continue
            with h5py.File(path, "r") as f:
                ok = "aspire_config" in f and "flow" in f
            if not ok:
                continue
            counters["final_resumes"] += 1
            p3 = Probe(t)
            try:
                a3 = Aspire.resume_from_file(path, log_likelihood=p3.log_likelihood, log_prior=p3.log_prior)
                kw = dict(smc_kw, rng=np.random.default_rng(5)) if getattr(a3, "_resume_sampler_type", None) in ("smc", "minipcn_smc") else {}
                res = smcrun.run(a3, 10, "importance", kw, max_calls=500)
                if res.exc is not None:
                    raise res.exc
            except Exception as exc:  # noqa: BLE001
                viol.append({"mech": "C14/resume-from-file-then-sample-raises", "detail": f"sequence {seq} [{os.path.basename(path)}]: {type(exc).__name__}: {str(exc)[:200]}"})
    finally:
        rm_tmp(f1s)
        rm_tmp(f2s)


def run_case(case):
    from collections import Counter

    counters = Counter({k: 0 for k in REQUIRED_COUNTERS})
    viol = []
    g = np.random.default_rng(case["seed"])
    nontrivial = []
    for seq in case["seqs"]:
        before = len(viol)
        run_sequence(seq, g, counters, viol)
        if any(tk in seq and seq.index(tk) < len(seq) - 1 for tk in ("smc", "smc2", "smcX")):
            nontrivial.append(">".join(seq))
        # keep one witness per mechanism per sequence
        seen = {}
        for v in viol[before:]:
            seen.setdefault(v["mech"], v)
        viol[before:] = list(seen.values())
    agg = {}
    for v in viol:
        agg.setdefault(v["mech"], dict(v, count=0))["count"] += 1
    return {"viol": list(agg.values()), "counters": dict(counters), "nontrivial": nontrivial, "sample": {"sequences": case["seqs"][:3]}}
