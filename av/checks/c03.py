"""C03 - the fitted proposal is a normalised density; sampling and evaluation agree.

Quadrature monitor over the executed `flow.log_prob`: for real zuko and flowjax flows (data
transform attached exactly as Aspire attaches it) exp(log_prob) is integrated over the whole
support in the user's *native* coordinates (graded Gauss-Legendre panels refined towards finite
bounds; the flow's own latent space is never used, so a wrong Jacobian cannot cancel) and must
give 1; the log-density returned with draws must equal log_prob at the draws; draws must respect
finite bounds when bounded parameters are mapped to the real line.  Stages: untrained, trained,
after save -> load.
"""
from __future__ import annotations

import numpy as np

from .. import env
from ..harness import Probe, rm_tmp, tmpfile, to_np, width_of
from ..targets import Coord, Target

ID = "C03"
LEVEL = "exploration"
RULE = (
    "configurations = {zuko, flowjax} x bounded transform {logit, probit, off} x affine {on, off} x dtype {float32, float64} x training data "
    "{centred, hugging a bound, bimodal} x dims {1, 2} x stage {untrained, trained, after save/load}; construction through Aspire.init_flow and "
    "directly with a FlowTransform. non-trivial = configuration with a non-identity data transform (bounded map or affine) whose integral was "
    "evaluated; distinct = the configuration tuple"
)
ASSUMPTIONS = [
    "normalisation by quadrature in 1-2 dims only (pointwise draw/evaluate agreement also in 2 dims); tolerance 2e-4 (float64) / 4e-3 (float32)",
    "unbounded coordinates are integrated over mean +- 14 sd of the training data (tail mass beyond is below the tolerance for these flows)",
    "tiny networks (2 layers, width 8), <= 3 epochs",
]
REQUIRED_COUNTERS = ["configurations", "integrals_evaluated", "log_prob_evaluations", "draws_checked", "stages_checked"]
CHUNK = 2
CHUNK_TIMEOUT = 1800


def cases(tier, seed):
    out = []
    k = 0
    bts = ["logit", "probit", "off"]
    for backend in ("zuko", "flowjax"):
        for bt in bts:
            for affine in (True, False):
                for dt in ("float64", "float32"):
                    for data in ("centred", "hug", "bimodal"):
                        for d in (1, 2):
                            out.append({"backend": backend, "bt": bt, "affine": affine, "dtype": dt, "data": data, "d": d, "seed": [seed, 3, k]})
                            k += 1
    if tier == "quick":
        g = np.random.default_rng([seed, 3])
        # a covering subset: every (backend, bt, affine) and every (backend, dtype, data, d) appears
        pick = []
        seen1, seen2 = set(), set()
        for i in g.permutation(len(out)):
            c = out[i]
            k1 = (c["backend"], c["bt"], c["affine"])
            k2 = (c["backend"], c["dtype"], c["data"], c["d"])
            if k1 not in seen1 or (k2 not in seen2 and len(pick) < 26):
                pick.append(c)
                seen1.add(k1)
                seen2.add(k2)
        out = pick
    out.sort(key=lambda c: (c["backend"], c["d"]))
    # more than two dimensions: no quadrature, but evaluation must still be a function of the point and agree with the
    # density returned with the draws (also for the continuous / flow-matching proposal)
    hd = [("zuko", True, 6, "float32"), ("zuko", False, 6, "float64"), ("flowjax", False, 5, "float64")]
    if tier == "thorough":
        hd += [("zuko", True, 5, "float64"), ("zuko", True, 8, "float32"), ("zuko", False, 12, "float32"), ("flowjax", False, 8, "float32"), ("zuko", True, 3, "float32")]
    for i, (backend, fm, d, dt) in enumerate(hd):
        out.append({"kind": "highdim", "backend": backend, "fm": fm, "d": d, "dtype": dt, "bt": ["logit", "probit"][i % 2], "affine": True, "data": "centred", "seed": [seed, 33, i]})
    # a quantity whose whole training set lies within ~1e-7 of zero (SI units), default-width flow, whitening on: the scale the
    # whitening divides by is then of the order of the float32 machine epsilon
    tiny = [("zuko", 1), ("flowjax", 1), ("zuko", 2)] if tier == "quick" else [("zuko", 1), ("flowjax", 1), ("zuko", 2), ("flowjax", 2)]
    for i, (backend, d) in enumerate(tiny):
        out.append({"backend": backend, "bt": "off", "affine": True, "dtype": "float32", "data": "tiny", "d": d, "seed": [seed, 34, i]})
    for i, c in enumerate(out):
        if c["data"] == "tiny":
            continue
        if i % 4 == 1:
            c["bounds"] = "unit"
        if i % 5 == 2 and c.get("kind") != "highdim" and c["affine"]:
            # the instance declares a periodic parameter: whatever the proposal does with that option, its density over the
            # user's space must still integrate to one and agree with the density returned with its draws
            c["periodic"] = True
    return out


def gl_nodes(edges, order=24):
    xg, wg = np.polynomial.legendre.leggauss(order)
    xs, ws = [], []
    for a, b in zip(edges[:-1], edges[1:]):
        if b <= a:
            continue
        xs.append(0.5 * (b - a) * xg + 0.5 * (a + b))
        ws.append(0.5 * (b - a) * wg)
    return np.concatenate(xs), np.concatenate(ws)


def axis_nodes(lo, hi, bounded, mean, sd, order, npanels=241, refine=1):
    if bounded:
        w = hi - lo
        fr = np.array([0.0, 1e-7, 1e-6, 3e-6, 1e-5, 1e-4, 1e-3, 5e-3, 0.02, 0.06, 0.12, 0.2, 0.3, 0.4, 0.5])
        fr = np.concatenate([fr, 1 - fr[::-1][1:]])
        # refine the bulk: split every interior panel in 3
        fine = []
        for a, b in zip(fr[:-1], fr[1:]):
            fine.extend(np.linspace(a, b, 4)[:-1])
        fine.append(1.0)
        edges = lo + w * np.array(fine)
    else:
        edges = np.linspace(mean - 14 * sd, mean + 14 * sd, npanels)
    if refine > 1:
        edges = np.concatenate([np.linspace(a, b, refine + 1)[:-1] for a, b in zip(edges[:-1], edges[1:])] + [edges[-1:]])
    return gl_nodes(edges, order)


def make_data(g, kind, d, lo, hi):
    n = 400
    cols = []
    for j in range(d):
        w = hi[j] - lo[j]
        if kind == "tiny":
            cols.append(g.normal(0.0, float(g.uniform(1.0e-7, 2.5e-7)), n))
            continue
        if kind == "centred":
            x = g.normal(lo[j] + 0.5 * w, 0.08 * w, n)
        elif kind == "hug":
            x = lo[j] + np.abs(g.normal(0, 0.05 * w, n)) + 1e-4 * w
        else:
            x = np.where(g.random(n) < 0.5, g.normal(lo[j] + 0.3 * w, 0.04 * w, n), g.normal(lo[j] + 0.72 * w, 0.05 * w, n))
        cols.append(np.clip(x, lo[j] + 1e-5 * w, hi[j] - 1e-5 * w))
    return np.column_stack(cols)


def build_flow(case, g, stage_untrained):
    from aspire import Aspire
    from aspire.flows import get_flow_wrapper
    from aspire.samples import Samples
    from aspire.transforms import FlowTransform

    backend, bt, affine, dt, d = case["backend"], case["bt"], case["affine"], case["dtype"], case["d"]
    F, fxp = get_flow_wrapper(backend)
    lo = np.array([float(g.uniform(-4, 0)) for _ in range(d)])
    hi = lo + np.array([float(g.uniform(2, 7)) for _ in range(d)])
    if case.get("bounds") == "unit":
        # intervals of width exactly one that do not start at zero (phases, fractions)
        lo = np.array([float(g.choice([-0.5, 1.0, -3.0, 2.0])) for _ in range(d)])
        hi = lo + 1.0
    if case["data"] == "tiny":
        lo, hi = np.full(d, -1.0), np.full(d, 1.5)
    params = ["width", "angle"][:d]  # declared order is not alphabetical; the two parameters have different bounds
    pb = {p: [float(lo[j]), float(hi[j])] for j, p in enumerate(params)}
    data = make_data(g, case["data"], d, lo, hi)
    if backend == "zuko":
        fkw = dict(hidden_features=[8, 8], transforms=2, seed=int(g.integers(1000)))
        fit_kw = dict(n_epochs=0 if stage_untrained else 3, batch_size=100)
    else:
        import jax

        fkw = dict(flow_layers=2, nn_width=8, key=jax.random.key(int(g.integers(1000))))
        fit_kw = dict(max_epochs=1 if stage_untrained else 3, batch_size=100, show_progress=False)
        if stage_untrained:
            fit_kw["learning_rate"] = 1e-12
    via_aspire = affine  # Aspire.init_flow always whitens; affine off needs a hand-made FlowTransform
    if via_aspire:
        t = Target([Coord("box", lo[j], hi[j], 0.0, 1.0) for j in range(d)])
        t.parameters = params
        probe = Probe(t)
        a = Aspire(
            log_likelihood=probe.log_likelihood,
            log_prior=probe.log_prior,
            dims=d,
            parameters=params,
            prior_bounds=pb,
            bounded_to_unbounded=(bt != "off"),
            bounded_transform=(bt if bt != "off" else "logit"),
            flow_backend=backend,
            xp=fxp,
            dtype=dt,
            periodic_parameters=[params[0]] if case.get("periodic") else None,
            **fkw,
        )
        a.fit(Samples(fxp.asarray(data), xp=fxp, parameters=params), **fit_kw)
        return a.flow, a, lo, hi, data, F
    tr = FlowTransform(parameters=params, prior_bounds=pb, bounded_to_unbounded=(bt != "off"), bounded_transform=(bt if bt != "off" else "logit"), affine_transform=False, xp=fxp, dtype=dt)
    flow = F(dims=d, data_transform=tr, dtype=dt, **fkw)
    flow.fit(data, **fit_kw)
    return flow, None, lo, hi, data, F


def check_flow(flow, aspire, case, lo, hi, data, stage, where, viol, counters):
    d = case["d"]
    bounded = case["bt"] != "off"
    f32 = case["dtype"] == "float32"
    tol = 4e-3 if f32 else 2e-4
    order = 24 if d == 1 else 10
    if bounded:
        cen, sds = data.mean(axis=0), data.std(axis=0)
    else:
        # the integration window for unbounded coordinates covers both the training data and where the flow actually puts mass
        xd0 = np.asarray(to_np(flow.sample_and_log_prob(4000)[0]), dtype=float)
        allx = np.concatenate([xd0, data])
        cen = 0.5 * (allx.min(axis=0) + allx.max(axis=0))
        sds = np.maximum((allx.max(axis=0) - allx.min(axis=0)) / 14.0, np.maximum(xd0.std(axis=0), data.std(axis=0)))
    # tolerance of the verdict = tol; the quadrature itself is refined (every panel split in 2, then 3) before a failure is
    # reported, so that a discretisation error of the rule is never reported as a defect of the density
    p_tail = 0.0
    if not bounded:
        xt = np.asarray(to_np(flow.sample_and_log_prob(20000)[0]), dtype=float)
        outside = np.any((xt < cen - 14 * sds) | (xt > cen + 14 * sds), axis=1)
        p_tail = float(outside.mean()) + 4 * np.sqrt(max(float(outside.mean()), 1.0 / 20000) / 20000) if outside.any() else 0.0
    # Mass the flow itself places inside the documented clipping margin next to a bound: there log_prob evaluates the
    # clipped point, so that mass is (legitimately) missing from the integral.  It is measured from the flow's own draws
    # and only ever relaxes the lower side.
    p_clip, sig_clip = 0.0, 0.0
    if bounded:
        nd = 20000
        xd = np.asarray(to_np(flow.sample_and_log_prob(nd)[0]), dtype=float)
        ud = (xd - lo) / (hi - lo)
        inside_margin = np.any((ud < 1e-6) | (ud > 1 - 1e-6), axis=1)
        p_clip = float(inside_margin.mean())
        sig_clip = 4 * np.sqrt(max(p_clip, 1.0 / nd) / nd)
        counters["clip_margin_mass_measured"] += 1
    for refine in (1, 2, 3):
        sd_floor = 0.0 if case["data"] == "tiny" else 1e-3
        axes = [axis_nodes(lo[j], hi[j], bounded, cen[j], max(sds[j], sd_floor * (hi[j] - lo[j])), order, 241 if d == 1 else 57, refine=refine) for j in range(d)]
        if d == 1:
            pts = axes[0][0][:, None]
            wts = axes[0][1]
        else:
            # coarser tensor grid in 2-D
            ax = []
            for j in range(2):
                x, w = axes[j]
                ax.append((x, w))
            X, Y = np.meshgrid(ax[0][0], ax[1][0], indexing="ij")
            pts = np.column_stack([X.ravel(), Y.ravel()])
            wts = np.outer(ax[0][1], ax[1][1]).ravel()
        lp = []
        B = 40000
        for i in range(0, len(pts), B):
            lp.append(np.asarray(to_np(flow.log_prob(pts[i : i + B])), dtype=float))
        lp = np.concatenate(lp)
        counters["log_prob_evaluations"] += len(pts)
        if np.isnan(lp).any() or np.isposinf(lp).any():
            viol.append({"mech": "C03/log_prob-not-finite-inside-support", "detail": f"{where} [{stage}]: {int(np.isnan(lp).sum())} NaN, {int(np.isposinf(lp).sum())} +inf of {len(lp)} quadrature nodes"})
            return None
        integral = float(np.sum(wts * np.exp(lp)))
        counters["integrals_evaluated"] += 1
        # Inside the documented clipping margin log_prob evaluates the clipped point, so what the quadrature collects over the two
        # strips next to each bound is (strip width) x (density at the clip point), not the flow's mass there: it may fall short of
        # it (p_clip, measured from draws, relaxes the lower side) or exceed it (the strips' own contribution relaxes the upper side)
        strip = 0.0
        if bounded:
            un = (pts - lo) / (hi - lo)
            in_strip = np.any((un < 1e-6) | (un > 1 - 1e-6), axis=1)
            strip = float(np.sum(wts[in_strip] * np.exp(lp[in_strip])))
        if 1.0 - p_clip - sig_clip - p_tail - tol <= integral <= 1.0 + tol + strip:
            break
        counters["integrals_refined"] += 1
    if not (1.0 - p_clip - sig_clip - p_tail - tol <= integral <= 1.0 + tol + strip):
        viol.append(
            {
                "mech": "C03/density-not-normalised-in-native-coordinates",
                "detail": f"{where} [{stage}]: integral of exp(log_prob) over the support = {integral:.6f} (tolerance {tol}, mass inside the clipping margin {p_clip:.2g})",
            }
        )
    # draws: returned log_q equals log_prob at the draws; bounds respected
    for src in ("flow", "aspire") if aspire is not None else ("flow",):
        n = 256
        if src == "flow":
            x, lq = flow.sample_and_log_prob(n)
        else:
            s = aspire.sample_flow(n)
            x, lq = s.x, s.log_q
        xn = np.asarray(to_np(x), dtype=float)
        lqn = np.asarray(to_np(lq), dtype=float)
        re = np.asarray(to_np(flow.log_prob(x)), dtype=float)
        counters["draws_checked"] += n
        rt = 5e-3 if f32 else 1e-7
        # float32 next to a bound: the Jacobian of the bounded map loses digits; compare where it is well conditioned
        ok = np.ones(n, dtype=bool)
        if bounded:
            u = (xn - lo) / (hi - lo)
            # draws inside the documented clipping margin (eps=1e-6) are excluded: log_prob evaluates the clipped point there
            ok = np.all((u > (1e-3 if f32 else 2e-6)) & (u < 1 - (1e-3 if f32 else 2e-6)), axis=1)
            slack = 4 * (1.2e-7 if f32 else 2.3e-16) * np.maximum(np.abs(lo), np.abs(hi))  # bounds as representable in the dtype
            if (xn < lo - slack).any() or (xn > hi + slack).any():
                viol.append({"mech": "C03/draw-outside-declared-bounds", "detail": f"{where} [{stage}, {src}]: min {xn.min(axis=0)}, max {xn.max(axis=0)}, bounds {lo}..{hi}"})
        bad = ok & ~(np.abs(lqn - re) <= rt * (1 + np.abs(re)))
        if bad.any():
            i = int(np.argmax(np.where(bad, np.abs(lqn - re), 0)))
            viol.append({"mech": "C03/log_q-of-draw-differs-from-log_prob", "detail": f"{where} [{stage}, {src}]: x={xn[i].tolist()} returned {lqn[i]!r}, log_prob gives {re[i]!r}"})
    counters["stages_checked"] += 1
    return integral


def run_highdim(case):
    from collections import Counter

    from aspire import Aspire
    from aspire.flows import get_flow_wrapper
    from aspire.samples import Samples

    counters = Counter({k: 0 for k in REQUIRED_COUNTERS})
    viol = []
    g = np.random.default_rng(case["seed"])
    d, backend, dt = case["d"], case["backend"], case["dtype"]
    F, fxp = get_flow_wrapper(backend, flow_matching=case["fm"])
    lo = g.uniform(-4, 0, d)
    hi = lo + g.uniform(2, 7, d)
    params = [f"{'qrstuvwxyz'[j % 10]}{j}" for j in range(d)][::-1]
    pb = {p: [float(lo[j]), float(hi[j])] for j, p in enumerate(params)}
    data = make_data(g, "centred", d, lo, hi)
    where = f"{backend} flow_matching={case['fm']} d={d} {dt} bounded={case['bt']}"
    if backend == "zuko":
        fkw = dict(seed=int(g.integers(1000))) if case["fm"] else dict(hidden_features=[8, 8], transforms=2, seed=int(g.integers(1000)))
        fit_kw = dict(n_epochs=3, batch_size=100)
    else:
        import jax

        fkw = dict(flow_layers=2, nn_width=8, key=jax.random.key(int(g.integers(1000))))
        fit_kw = dict(max_epochs=2, batch_size=100, show_progress=False)
    t = Target([Coord("box", lo[j], hi[j], 0.0, 1.0) for j in range(d)])
    t.parameters = params
    probe = Probe(t)
    a = Aspire(log_likelihood=probe.log_likelihood, log_prior=probe.log_prior, dims=d, parameters=params, prior_bounds=pb, bounded_to_unbounded=True,
               bounded_transform=case["bt"], flow_backend=backend, flow_matching=case["fm"], xp=fxp, dtype=dt, **fkw)
    a.fit(Samples(fxp.asarray(data), xp=fxp, parameters=params), **fit_kw)
    counters["configurations"] += 1
    f32 = dt == "float32"
    # a continuous flow integrates an ODE: its two directions agree to the solver tolerance only
    rt = (5e-3 if case["fm"] else (2e-3 if f32 else 1e-8))
    for src, draw in (("flow", lambda: a.flow.sample_and_log_prob(48)), ("sample_flow", lambda: a.sample_flow(48))):
        out = draw()
        if src == "flow":
            xd, lq = out
        else:
            xd, lq = out.x, out.log_q
        xn = np.asarray(to_np(xd), dtype=float)
        lqn = np.asarray(to_np(lq), dtype=float)
        e1 = np.asarray(to_np(a.flow.log_prob(xd)), dtype=float)
        e2 = np.asarray(to_np(a.flow.log_prob(xd)), dtype=float)
        counters["draws_checked"] += len(xn)
        counters["log_prob_evaluations"] += 2 * len(xn)
        counters["highdim_draws_checked"] += len(xn)
        if not np.array_equal(e1, e2, equal_nan=True):
            viol.append({"mech": "C03/log_prob-is-not-a-function-of-the-point", "detail": f"{where} [{src}]: two evaluations at the same points differ by up to {np.nanmax(np.abs(e1 - e2)):.3g}"})
        slack = 4 * (1.2e-7 if f32 else 2.3e-16) * np.maximum(np.abs(lo), np.abs(hi))
        if (xn < lo - slack).any() or (xn > hi + slack).any():
            viol.append({"mech": "C03/draw-outside-declared-bounds", "detail": f"{where} [{src}]: min {xn.min(axis=0)}, max {xn.max(axis=0)}"})
        u = (xn - lo) / (hi - lo)
        ok = np.all((u > 1e-3) & (u < 1 - 1e-3), axis=1)
        bad = ok & ~(np.abs(lqn - e1) <= rt * (1 + np.abs(e1)))
        if bad.any():
            i = int(np.argmax(np.where(bad, np.abs(lqn - e1), 0)))
            viol.append({"mech": "C03/log_q-of-draw-differs-from-log_prob", "detail": f"{where} [{src}]: returned {lqn[i]!r}, log_prob gives {e1[i]!r}"})
    counters["stages_checked"] += 1
    counters["integrals_evaluated"] += 0
    seen = {}
    for v in viol:
        seen.setdefault(v["mech"], dict(v, count=0))["count"] += 1
    return {"viol": list(seen.values()), "counters": dict(counters), "nontrivial": [where], "sample": {"where": where}}


def run_case(case):
    from collections import Counter

    import h5py

    if case.get("kind") == "highdim":
        return run_highdim(case)

    counters = Counter({k: 0 for k in REQUIRED_COUNTERS})
    viol = []
    g = np.random.default_rng(case["seed"])
    where = f"{case['backend']} bounded={case['bt']} affine={case['affine']} {case['dtype']} data={case['data']} d={case["d"]} bounds={case.get("bounds", "random")} periodic={bool(case.get("periodic"))}"
    counters["configurations"] += 1
    integrals = {}
    # untrained (weights at initialisation, data transform fitted)
    flow, a, lo, hi, data, F = build_flow(case, np.random.default_rng(case["seed"]), True)
    integrals["untrained"] = check_flow(flow, a, case, lo, hi, data, "untrained", where, viol, counters)
    # trained
    flow, a, lo, hi, data, F = build_flow(case, np.random.default_rng(case["seed"]), False)
    integrals["trained"] = check_flow(flow, a, case, lo, hi, data, "trained", where, viol, counters)
    # re-fit of the same flow object on data with another spread (fitted state of the data transform must be replaced)
    g2 = np.random.default_rng(case["seed"] + [99])
    w = hi - lo
    data2 = np.clip(lo + 0.5 * w + (0.03 if case["data"] != "centred" else 0.2) * w * g2.standard_normal((300, case["d"])), lo + 1e-5 * w, hi - 1e-5 * w)
    if case["data"] == "tiny":
        data2 = g2.normal(0.0, 4.0e-7, (300, case["d"]))
    if case["backend"] == "zuko":
        flow.fit(data2, n_epochs=1, batch_size=100)
    else:
        flow.fit(data2, max_epochs=1, batch_size=100, show_progress=False)
    integrals["refitted"] = check_flow(flow, None, case, lo, hi, np.concatenate([data, data2]), "re-fitted on other data", where, viol, counters)
    # after save -> load
    path = tmpfile("flow.h5")
    try:
        with h5py.File(path, "w") as f:
            flow.save(f, path="flow")
        with h5py.File(path, "r") as f:
            flow2 = F.load(f, path="flow")
        integrals["reloaded"] = check_flow(flow2, None, case, lo, hi, data, "after save/load", where, viol, counters)
        xs = data2[:50]
        l1 = np.asarray(to_np(flow.log_prob(xs)), dtype=float)
        l2 = np.asarray(to_np(flow2.log_prob(xs)), dtype=float)
        if not np.allclose(l1, l2, rtol=1e-4 if case["dtype"] == "float32" else 1e-10, atol=1e-4 if case["dtype"] == "float32" else 1e-10):
            viol.append({"mech": "C03/density-changed-by-save-load", "detail": f"{where}: max |d log_prob| = {np.max(np.abs(l1 - l2)):.3g}"})
    finally:
        rm_tmp(path)
    nontriv = case["bt"] != "off" or case["affine"]
    seen = {}
    for v in viol:
        seen.setdefault(v["mech"], dict(v, count=0))["count"] += 1
    return {
        "viol": list(seen.values()),
        "counters": dict(counters),
        "nontrivial": [where] if nontriv else [],
        "sample": {"config": where, "integrals": integrals},
    }
