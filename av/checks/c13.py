"""C13 - saved samples, histories, transforms, flows and configuration reload unchanged.

Round-trip monitor through real HDF5 files with observational equality per type: sample sets
(values, names, namespace, dtype, optional fields), histories (every series and stored
population), transforms (same maps and log-Jacobians on fresh probe points), zuko / flowjax flows
(same log_prob, same draws from the stored key), Aspire configuration (resume_from_file(...).
config_dict() vs the writer's) and the generic recursive encoder on generated dictionaries.
"""
from __future__ import annotations

import math

import numpy as np

from .. import env, recorded
from ..harness import Probe, ns_name, rm_tmp, tmpfile, to_np, width_of
from ..targets import Coord, Target

ID = "C13"
LEVEL = "exploration"
RULE = (
    "samples: {BaseSamples, Samples, SMCSamples} x 3 namespaces x {default, float32, float64} x 2^4 optional-field subsets x flat/nested (exhaustive); "
    "histories from real SMC runs and synthetic FlowHistory; transforms: every class, fitted state, on/off combinations (seeded); flows: {zuko, flowjax} "
    "x with/without extra flow options x dtype; configurations: with/without bounds, periodic parameters, dtype, flow options, sampler types; generic "
    "dictionaries: seeded nested dicts with None, {}, string lists, numpy/python scalars, arrays. non-trivial = object with >=1 optional/non-default "
    "component; distinct = distinct cell / generated structure signature"
)
ASSUMPTIONS = [
    "equality modulo container type (list/tuple/ndarray, numpy/python scalar); a key whose value is an empty dict may come back absent",
    "mixed-type lists and lists of None are outside the stated family and are not generated; keys are non-empty text (may contain '.', '/', '%', spaces, non-ASCII)",
    "flows compared on probe points at 1e-6 (float32) / 1e-12 (float64) relative tolerance",
]
REQUIRED_COUNTERS = ["samples_roundtrips", "history_roundtrips", "transform_roundtrips", "flow_roundtrips", "config_roundtrips", "dict_roundtrips"]

NS = ["numpy", "torch", "jax"]


def cases(tier, seed):
    out = []
    for cls in ("BaseSamples", "Samples", "SMCSamples"):
        for xpn in NS:
            out.append({"kind": "samples", "cls": cls, "xp": xpn, "seed": [seed, 13]})
    nh = {"quick": 6, "thorough": 120}[tier]
    for k in range(nh):
        out.append({"kind": "history", "seed": [seed, 131, k]})
    nt = {"quick": 12, "thorough": 300}[tier]
    for k in range(nt):
        out.append({"kind": "transforms", "xp": NS[k % 3], "seed": [seed, 132, k], "n": 12})
    flows = []
    for backend in ("zuko", "flowjax"):
        for opts in (False, True):
            for dt in (None, "float64") if tier == "quick" else (None, "float32", "float64"):
                flows.append({"kind": "flow", "backend": backend, "opts": opts, "dtype": dt})
    # process-wide state: the writer runs under torch.set_default_dtype(float64) (common in scientific torch code), the
    # reader under the stock default - a flow built with dtype=None must come back with the precision it really had
    flows.append({"kind": "flow", "backend": "zuko", "opts": True, "dtype": None, "torch_default": "float64"})
    flows.append({"kind": "flow", "backend": "zuko", "opts": False, "dtype": "float32", "torch_default": "float64"})
    for k, f in enumerate(flows):
        f["seed"] = [seed, 133, k]
        out.append(f)
    ncfg = {"quick": 16, "thorough": 200}[tier]
    for k in range(ncfg):
        out.append({"kind": "config", "seed": [seed, 134, k], "k": k})
    nd = {"quick": 8, "thorough": 200}[tier]
    for k in range(nd):
        out.append({"kind": "dicts", "seed": [seed, 135, k], "n": 40})
    return out


# ------------------------------------------------------------------ helpers


def norm(v):
    """normalise containers / scalar types for comparison."""
    if isinstance(v, dict):
        out = {}
        for k, x in v.items():
            nx = norm(x)
            if isinstance(nx, dict) and len(nx) == 0:
                continue  # (recursively) empty dictionaries may come back absent
            out[str(k)] = nx
        return out
    if isinstance(v, (list, tuple)):
        return [norm(x) for x in v]
    if hasattr(v, "detach") or type(v).__module__.startswith("jax"):
        v = to_np(v)
    if isinstance(v, np.ndarray):
        if v.shape == ():
            return norm(v.item())
        return [norm(x) for x in v.tolist()]
    if isinstance(v, (np.floating,)):
        return float(v)
    if isinstance(v, (np.integer,)):
        return int(v)
    if isinstance(v, np.bool_):
        return bool(v)
    if isinstance(v, bytes):
        return v.decode()
    return v


def deep_equal(a, b, path=""):
    a, b = norm(a), norm(b)
    return _deq(a, b, path)


def _deq(a, b, path):
    if isinstance(a, dict) and isinstance(b, dict):
        ks = set(a) | set(b)
        for k in sorted(ks):
            if k not in a or k not in b:
                return f"{path}.{k}: present only on one side ({'saved' if k in a else 'loaded'})"
            r = _deq(a[k], b[k], f"{path}.{k}")
            if r:
                return r
        return None
    if isinstance(a, list) and isinstance(b, list):
        if len(a) != len(b):
            return f"{path}: length {len(a)} vs {len(b)}"
        for i, (x, y) in enumerate(zip(a, b)):
            r = _deq(x, y, f"{path}[{i}]")
            if r:
                return r
        return None
    if isinstance(a, float) and isinstance(b, (float, int)) or isinstance(b, float) and isinstance(a, (float, int)):
        if (a != a and b != b) or a == b:
            return None
        return f"{path}: {a!r} vs {b!r}"
    if isinstance(a, bool) != isinstance(b, bool) and isinstance(a, (bool, int)) and isinstance(b, (bool, int)):
        return None if int(a) == int(b) else f"{path}: {a!r} vs {b!r}"
    if a == b:
        return None
    return f"{path}: {a!r} ({type(a).__name__}) vs {b!r} ({type(b).__name__})"


def same_arr(a, b):
    if a is None or b is None:
        return a is None and b is None
    a, b = np.asarray(to_np(a)), np.asarray(to_np(b))
    return a.shape == b.shape and a.dtype == b.dtype and np.array_equal(a, b, equal_nan=True)


# ------------------------------------------------------------------ samples


def samples_case(case, counters, viol, nontrivial):
    import itertools

    import h5py

    from aspire import samples as S

    C = getattr(S, case["cls"])
    xpn = case["xp"]
    xp = env.xp_of(xpn)
    g = np.random.default_rng(case["seed"])
    n, d = 9, 3
    x0 = g.standard_normal((n, d))
    f0 = [g.standard_normal(n) for _ in range(3)]
    path = tmpfile("s.h5")
    try:
        for dt in (None, "float32", "float64"):
            for mask in itertools.product([0, 1], repeat=4):
                for flat in (False, True):
                    kw = dict(x=xp.asarray(x0), xp=xp, dtype=dt)
                    for flag, name, arr in zip(mask[:3], ("log_likelihood", "log_prior", "log_q"), f0):
                        if flag:
                            kw[name] = xp.asarray(arr)
                    if mask[3]:
                        kw["parameters"] = ["m2/m1", "spin_1.z", "100%"] if not flat else ["mass", "θ_jn", "Δφ/2π"]  # names are text: not ASCII, ratios, components
                    if case["cls"] == "SMCSamples":
                        kw.update(beta=0.3 if mask[1] else 0.0, log_evidence=-1234.5678 if mask[0] else None, log_evidence_error=0.1 if mask[0] else None)  # not exactly representable in float32; and zero
                    s = C(**kw)
                    cell = f"{case['cls']}|{xpn}|{dt}|{mask}|flat={flat}"
                    counters["samples_roundtrips"] += 1
                    try:
                        with h5py.File(path, "w") as f:
                            s.save(f, path="samples", flat=flat)
                        with h5py.File(path, "r") as f:
                            r = C.load(f, path="samples")
                    except Exception as exc:  # noqa: BLE001
                        viol.append({"mech": f"C13/samples-save-load-raises/{case['cls']}", "detail": f"{cell}: {type(exc).__name__}: {str(exc)[:200]}"})
                        continue
                    def compare(s, r):
                        bad = []
                        if type(r) is not type(s):
                            bad.append(f"class {type(r).__name__}")
                        if ns_name(r.xp) != xpn:
                            bad.append(f"namespace {ns_name(r.xp)}")
                        for name in ("x", "log_likelihood", "log_prior", "log_q"):
                            if not same_arr(getattr(s, name), getattr(r, name)):
                                a_, b_ = getattr(s, name), getattr(r, name)
                                bad.append(f"{name} changed (dtype {None if a_ is None else to_np(a_).dtype}->{None if b_ is None else to_np(b_).dtype})")
                        if list(r.parameters) != list(s.parameters):
                            bad.append(f"parameters {r.parameters}")
                        if str(r.dtype) != str(s.dtype):
                            bad.append(f"dtype {s.dtype}->{r.dtype}")
                        if case["cls"] == "SMCSamples":
                            for name in ("beta", "log_evidence", "log_evidence_error"):
                                a_, b_ = getattr(s, name), getattr(r, name)
                                if (a_ is None) != (b_ is None) or (a_ is not None and float(to_np(a_)) != float(to_np(b_))):
                                    bad.append(f"{name} {a_}->{b_}")
                        if case["cls"] == "Samples" and all(mask[:3]):
                            if not same_arr(s.log_w, r.log_w) or float(to_np(s.log_evidence)) != float(to_np(r.log_evidence)):
                                bad.append("weights/evidence changed")
                        return bad

                    import copy

                    snapshot = copy.deepcopy(s)
                    bad = compare(s, r)
                    if bad:
                        viol.append({"mech": f"C13/samples-roundtrip-changed/{bad[0].split(' ')[0]}", "detail": f"{cell}: {bad}"})
                    # writing again (the same object into another group; the reloaded object once more) and the object that
                    # was written must all still be the same sample set
                    try:
                        with h5py.File(path, "a") as f:
                            s.save(f, path="samples_again", flat=flat)
                            r.save(f, path="second_generation", flat=flat)
                        with h5py.File(path, "r") as f:
                            r_again = C.load(f, path="samples_again")
                            r_gen2 = C.load(f, path="second_generation")
                        counters["samples_repeated_writes"] += 1
                        for label, obj in (("same object written again", r_again), ("reloaded object written and reloaded", r_gen2), ("the written object itself after saving", s)):
                            b2 = compare(snapshot, obj)
                            if b2:
                                viol.append({"mech": f"C13/samples-changed-on-repeated-write/{b2[0].split(' ')[0]}", "detail": f"{cell}: {label}: {b2}"})
                    except Exception as exc:  # noqa: BLE001
                        viol.append({"mech": f"C13/samples-repeated-write-raises/{case['cls']}", "detail": f"{cell}: {type(exc).__name__}: {str(exc)[:200]}"})
                    if any(mask) or dt is not None:
                        nontrivial.add(cell)
    finally:
        rm_tmp(path)


# ------------------------------------------------------------------ histories


def history_case(case, counters, viol, nontrivial):
    import h5py

    from aspire.history import FlowHistory, SMCHistory

    from .c08 import gen_cfg

    g = np.random.default_rng(case["seed"])
    cfg = gen_cfg(g)
    if cfg["sampler"] == "blackjax_smc":
        cfg["sampler"], cfg["xp"] = "smc", "numpy"
    r = recorded.record(cfg)
    if r.exc is not None:
        raise r.exc
    h = r.history
    path = tmpfile("h.h5")
    where = f"SMCHistory from {cfg['sampler']} xp={cfg['xp']} dtype={cfg['dtype']} T={len(h.beta)}"
    try:
        counters["history_roundtrips"] += 1
        try:
            with h5py.File(path, "w") as f:
                h.save(f, path="smc_history")
            with h5py.File(path, "r") as f:
                h2 = SMCHistory.load(f, path="smc_history")
        except Exception as exc:  # noqa: BLE001
            viol.append({"mech": "C13/history-save-load-raises", "detail": f"{where}: {type(exc).__name__}: {str(exc)[:200]}"})
            return
        for k in ("log_norm_ratio", "log_norm_ratio_var", "beta", "ess", "ess_target", "eff_target", "mcmc_acceptance", "mcmc_autocorr"):
            a = [np.asarray(to_np(v), dtype=float).tolist() for v in getattr(h, k)]
            b_raw = getattr(h2, k)
            b = [np.asarray(to_np(v), dtype=float).tolist() for v in (b_raw if b_raw is not None else [])]
            if not (len(a) == len(b) and all(np.allclose(x, y, rtol=0, atol=0, equal_nan=True) for x, y in zip(a, b))):
                viol.append({"mech": f"C13/history-series-changed/{k}", "detail": f"{where}: saved {a[:3]}..(len {len(a)}) loaded {b[:3]}..(len {len(b)})"})
        if len(h2.sample_history) != len(h.sample_history):
            viol.append({"mech": "C13/history-populations-lost", "detail": f"{where}: {len(h.sample_history)} saved, {len(h2.sample_history)} loaded"})
        else:
            for t, (p, q) in enumerate(zip(h.sample_history, h2.sample_history)):
                bad = [n_ for n_ in ("x", "log_likelihood", "log_prior", "log_q") if not same_arr(getattr(p, n_), getattr(q, n_))]
                if type(q).__name__ != "SMCSamples" or ns_name(q.xp) != ns_name(p.xp):
                    bad.append(f"class/namespace {type(q).__name__}/{ns_name(q.xp)}")
                if (p.beta is None) != (q.beta is None) or (p.beta is not None and float(to_np(p.beta)) != float(to_np(q.beta))):
                    bad.append(f"beta {p.beta}->{q.beta}")
                if list(p.parameters) != list(q.parameters):
                    bad.append("parameters")
                if bad:
                    viol.append({"mech": f"C13/history-population-changed/{str(bad[0]).split(' ')[0]}", "detail": f"{where}: population {t}: {bad}"})
                    break
        # a long run: more stored populations than fit in one decimal digit (HDF5 lists group members by name, "10" before "2")
        from aspire.samples import SMCSamples

        xp_h = h.sample_history[0].xp if h.sample_history else env.xp_of("numpy")
        n_long = int(g.integers(11, 26))
        long_h = SMCHistory()
        betas = np.sort(g.uniform(0, 1, n_long))
        betas[0], betas[-1] = 0.0, 1.0
        for b in betas:
            m = int(g.integers(3, 7))
            long_h.sample_history.append(SMCSamples(x=xp_h.asarray(g.standard_normal((m, 2))), log_likelihood=xp_h.asarray(g.standard_normal(m)), log_prior=xp_h.asarray(g.standard_normal(m)),
                                                    log_q=xp_h.asarray(g.standard_normal(m)), beta=float(b), xp=xp_h, parameters=["b", "a"]))
        long_h.beta = [float(b) for b in betas[1:]]
        long_h.ess = [float(v) for v in g.uniform(1, 5, n_long - 1)]
        counters["long_history_roundtrips"] += 1
        try:
            with h5py.File(path, "w") as f:
                long_h.save(f, path="run/smc_history")
            with h5py.File(path, "r") as f:
                long_2 = SMCHistory.load(f, path="run/smc_history")
        except Exception as exc:  # noqa: BLE001
            viol.append({"mech": "C13/history-save-load-raises", "detail": f"synthetic history with {n_long} populations: {type(exc).__name__}: {str(exc)[:200]}"})
            long_2 = None
        if long_2 is not None:
            if len(long_2.sample_history) != n_long:
                viol.append({"mech": "C13/history-populations-lost", "detail": f"synthetic history: {n_long} saved, {len(long_2.sample_history)} loaded"})
            else:
                for t_, (p, q) in enumerate(zip(long_h.sample_history, long_2.sample_history)):
                    if not same_arr(p.x, q.x) or not same_arr(p.log_q, q.log_q) or float(to_np(p.beta)) != float(to_np(q.beta)):
                        viol.append({"mech": "C13/history-population-changed/order", "detail": f"synthetic history with {n_long} populations: entry {t_} (beta {float(to_np(p.beta))!r}) came back with beta {float(to_np(q.beta))!r}"})
                        break
            if [float(v) for v in np.asarray(to_np(long_2.beta), dtype=float).reshape(-1)] != long_h.beta:
                viol.append({"mech": "C13/history-series-changed/beta", "detail": f"synthetic history with {n_long} populations"})
        fh = FlowHistory(training_loss=[float(v) for v in g.random(5)], validation_loss=[float(v) for v in g.random(5)])
        with h5py.File(path, "w") as f:
            fh.save(f)
        with h5py.File(path, "r") as f:
            fh2 = FlowHistory.load(f, path="flow_history")
        if not np.array_equal(np.asarray(fh.training_loss), np.asarray(fh2.training_loss)) or not np.array_equal(np.asarray(fh.validation_loss), np.asarray(fh2.validation_loss)):
            viol.append({"mech": "C13/flow-history-changed", "detail": f"{fh} -> {fh2}"})
        nontrivial.add(f"hist|{cfg['xp']}|{cfg['dtype']}|{len(h.beta)}")
    finally:
        rm_tmp(path)


# ------------------------------------------------------------------ transforms


def transforms_case(case, counters, viol, nontrivial):
    import h5py

    from aspire import transforms as T

    from . import c04

    g = np.random.default_rng(case["seed"])
    xpn = case["xp"]
    xp = env.xp_of(xpn)
    path = tmpfile("t.h5")
    try:
        for _ in range(case["n"]):
            dt = str(g.choice(["float64", "float32"]))
            pass_dt = dt if g.random() < 0.7 else None
            # dtype=None means the namespace's default width (float32 for torch): intervals must be representable there,
            # otherwise the constructor (rightly) refuses them
            spec = c04.gen_spec(g, "float32" if (pass_dt is None and xpn == "torch") else dt)
            t = c04.build(spec, xp, pass_dt)
            eff_dt = dt
            xfit, roles = c04.gen_points(g, spec, 64, dt)
            fitted = bool(g.random() < 0.7) or spec["kind"] == "affine" or bool(spec.get("affine"))
            arr = lambda a: xp.asarray(np.asarray(a, dtype=eff_dt))  # noqa: E731
            if fitted:
                t.fit(arr(xfit))
            where = f"{spec['kind']} xp={xpn} {dt} flags={spec.get('b2u')},{spec.get('bt')},{spec.get('affine')},{spec.get('types')} fitted={fitted}"
            counters["transform_roundtrips"] += 1
            try:
                with h5py.File(path, "w") as f:
                    t.save(f, path="data_transform")
                with h5py.File(path, "r") as f:
                    t2 = T.BaseTransform.load(f, path="data_transform")
            except Exception as exc:  # noqa: BLE001
                viol.append({"mech": f"C13/transform-save-load-raises/{type(t).__name__}", "detail": f"{where}: {type(exc).__name__}: {str(exc)[:200]}"})
                continue
            if type(t2) is not type(t):
                viol.append({"mech": "C13/transform-class-changed", "detail": f"{where}: {type(t2).__name__}"})
                continue
            xs, _ = c04.gen_points(g, spec, 17, dt)
            y1, l1 = t.forward(arr(xs))
            y2, l2 = t2.forward(arr(xs))
            x1, m1 = t.inverse(y1)
            x2, m2 = t2.inverse(y1)
            same = all(
                np.array_equal(np.asarray(to_np(a), dtype=float), np.asarray(to_np(b), dtype=float), equal_nan=True) for a, b in ((y1, y2), (l1, l2), (x1, x2), (m1, m2))
            )
            if not same:
                dmax = max(float(np.nanmax(np.abs(np.asarray(to_np(a), dtype=float) - np.asarray(to_np(b), dtype=float)))) for a, b in ((y1, y2), (l1, l2), (x1, x2), (m1, m2)))
                viol.append({"mech": f"C13/transform-map-changed/{type(t).__name__}", "detail": f"{where}: max difference on probe points {dmax:.3g}"})
            if width_of(y2) != width_of(y1):
                viol.append({"mech": "C13/transform-dtype-changed", "detail": f"{where}: output width {width_of(y1)}->{width_of(y2)}"})
            # the same object written again, and the reloaded transform written and reloaded once more
            try:
                with h5py.File(path, "a") as f:
                    t.save(f, path="again")
                    t2.save(f, path="second_generation")
                with h5py.File(path, "r") as f:
                    more = [("same object written again", T.BaseTransform.load(f, path="again")), ("reloaded transform written and reloaded", T.BaseTransform.load(f, path="second_generation"))]
                counters["transform_repeated_writes"] += 1
                for label, tk in more + [("the written object itself after saving", t)]:
                    yk, lk = tk.forward(arr(xs))
                    xk, mk = tk.inverse(y1)
                    if type(tk) is not type(t) or not all(
                        np.array_equal(np.asarray(to_np(a), dtype=float), np.asarray(to_np(b), dtype=float), equal_nan=True) for a, b in ((y1, yk), (l1, lk), (x1, xk), (m1, mk))
                    ):
                        viol.append({"mech": f"C13/transform-changed-on-repeated-write/{type(t).__name__}", "detail": f"{where}: {label}"})
            except Exception as exc:  # noqa: BLE001
                viol.append({"mech": f"C13/transform-repeated-write-raises/{type(t).__name__}", "detail": f"{where}: {type(exc).__name__}: {str(exc)[:200]}"})
            if spec["kind"] != "identity":
                nontrivial.add(c04.sig_of(spec, xpn, dt) + f"|{fitted}")
    finally:
        rm_tmp(path)


# ------------------------------------------------------------------ flows


def flow_case(case, counters, viol, nontrivial):
    import h5py

    from aspire.flows import get_flow_wrapper
    from aspire.transforms import FlowTransform

    backend, opts, dt = case["backend"], case["opts"], case["dtype"]
    g = np.random.default_rng(case["seed"])
    F, fxp = get_flow_wrapper(backend)
    params = ["a", "b"]
    pb = {"a": [-5.0, 5.0], "b": [-3.0, 9.0]}
    tr = FlowTransform(parameters=params, prior_bounds=pb, bounded_to_unbounded=bool(g.random() < 0.5), bounded_transform="logit", xp=fxp, dtype=dt)
    kw = {}
    if backend == "zuko":
        if opts:
            kw = dict(hidden_features=[8, 8], transforms=2, flow_class="MAF")
        fit_kw = dict(n_epochs=2, batch_size=64)
        kw["seed"] = int(g.integers(1000))
    else:
        import jax

        if opts:
            kw = dict(flow_layers=2, nn_width=8)
        kw["key"] = jax.random.key(int(g.integers(1000)))
        fit_kw = dict(max_epochs=2, batch_size=64, show_progress=False)
    td = case.get("torch_default")
    if td:
        import torch

        torch.set_default_dtype(getattr(torch, td))
        counters["flows_written_under_another_torch_default"] += 1
    try:
        if td:
            tr = FlowTransform(parameters=params, prior_bounds=pb, bounded_to_unbounded=tr.bounded_to_unbounded if hasattr(tr, "bounded_to_unbounded") else True, bounded_transform="logit", xp=fxp, dtype=dt)
        flow = F(dims=2, data_transform=tr, dtype=dt, **kw)
        x = np.column_stack([np.clip(g.normal(0, 1.5, 200), -4.9, 4.9), np.clip(g.normal(3, 2, 200), -2.9, 8.9)])
        flow.fit(x, **fit_kw)
    except BaseException:
        if td:
            torch.set_default_dtype(torch.float32)
        raise
    path = tmpfile("f.h5")
    where = f"{backend} extra-options={opts} dtype={dt}" + (f" written under torch default {td}, read under float32" if td else "")
    try:
        counters["flow_roundtrips"] += 1
        try:
            with h5py.File(path, "w") as f:
                flow.save(f, path="flow")
            if td:
                torch.set_default_dtype(torch.float32)
            with h5py.File(path, "r") as f:
                flow2 = F.load(f, path="flow")
        except Exception as exc:  # noqa: BLE001
            viol.append({"mech": f"C13/flow-save-load-raises/{backend}", "detail": f"{where}: {type(exc).__name__}: {str(exc)[:200]}"})
            return
        xs = np.column_stack([g.uniform(-4.5, 4.5, 40), g.uniform(-2.5, 8.5, 40)])
        l1 = np.asarray(to_np(flow.log_prob(xs)), dtype=float)
        l2 = np.asarray(to_np(flow2.log_prob(xs)), dtype=float)
        f32 = width_of(flow.log_prob(xs)) == 32 or "32" in str(getattr(flow, "dtype", ""))
        if not np.allclose(l1, l2, rtol=1e-4 if f32 else 1e-11, atol=1e-4 if f32 else 1e-11):
            viol.append({"mech": f"C13/flow-density-changed/{backend}", "detail": f"{where}: max |dlog_prob| {np.max(np.abs(l1-l2)):.3g}"})
        if width_of(flow2.log_prob(xs)) != width_of(flow.log_prob(xs)):
            viol.append({"mech": f"C13/flow-dtype-changed/{backend}", "detail": f"{where}: {width_of(flow.log_prob(xs))}->{width_of(flow2.log_prob(xs))}"})
        # writing is not a one-shot operation: the same object written again (another group, another file) and a reloaded
        # flow written and reloaded once more must still be the same density
        path2 = tmpfile("f2.h5")
        try:
            with h5py.File(path, "a") as f:
                flow.save(f, path="flow_again")
            with h5py.File(path2, "w") as f:
                flow.save(f, path="flow")
                flow2.save(f, path="second_generation")
            again = []
            with h5py.File(path, "r") as f:
                again.append(("same object, second group", F.load(f, path="flow_again")))
            with h5py.File(path2, "r") as f:
                again.append(("same object, second file", F.load(f, path="flow")))
                again.append(("reloaded flow written and reloaded again", F.load(f, path="second_generation")))
            for label, fl in again:
                counters["flow_repeated_writes"] += 1
                lk = np.asarray(to_np(fl.log_prob(xs)), dtype=float)
                if not np.allclose(l1, lk, rtol=1e-4 if f32 else 1e-11, atol=1e-4 if f32 else 1e-11) or type(fl.data_transform) is not type(flow.data_transform):
                    viol.append({"mech": f"C13/flow-density-changed-on-repeated-write/{backend}", "detail": f"{where}: {label}: max |dlog_prob| {np.max(np.abs(l1-lk)):.3g}, data transform {type(fl.data_transform).__name__} (written: {type(flow.data_transform).__name__})"})
        except Exception as exc:  # noqa: BLE001
            viol.append({"mech": f"C13/flow-repeated-write-raises/{backend}", "detail": f"{where}: {type(exc).__name__}: {str(exc)[:200]}"})
        finally:
            rm_tmp(path2)
        if backend == "flowjax":
            d1 = np.asarray(to_np(flow.sample_and_log_prob(5)[0]), dtype=float)
            d2 = np.asarray(to_np(flow2.sample_and_log_prob(5)[0]), dtype=float)
            # recorded, not judged: the statement asks for the same maps and densities, not the same random stream
            counters["flowjax_draws_differ_after_reload_recorded"] += int(not np.allclose(d1, d2, rtol=1e-5 if f32 else 1e-11, atol=1e-6))
        nontrivial.add(f"flow|{backend}|{opts}|{dt}")
    finally:
        rm_tmp(path)
        if td:
            torch.set_default_dtype(torch.float32)


# ------------------------------------------------------------------ configuration


def config_case(case, counters, viol, nontrivial):
    from aspire import Aspire
    from aspire.samples import Samples

    g = np.random.default_rng(case["seed"])
    k = case["k"]
    d = int(g.integers(1, 4))
    coords = [Coord("box", float(g.uniform(-9, -1)), float(g.uniform(1, 9)), 0.0, 1.0) for _ in range(d)]
    periodic = bool(k % 3 == 0)
    if periodic:
        coords[0] = Coord("vonmises", 0.0, 2 * math.pi, 0.05, 2.0)
    t = Target(coords)
    probe = Probe(t)
    xpn = NS[k % 3]
    xp = env.xp_of(xpn)
    backend = ["avnp", "zuko", "flowjax", "avnp"][k % 4] if xpn == "numpy" else {"torch": ["avtorch", "zuko"][k % 2], "jax": ["avjax", "flowjax"][k % 2]}[xpn]
    dt = [None, "float32", "float64"][(k // 3) % 3]
    kw = dict(
        log_likelihood=probe.log_likelihood,
        log_prior=probe.log_prior,
        dims=d,
        parameters=list(t.parameters),
        xp=xp,
        dtype=dt,
        flow_backend=backend,
        eps=float(g.choice([1e-6, 1e-4])),
        bounded_to_unbounded=bool(g.random() < 0.5),
        bounded_transform=str(g.choice(["logit", "probit"])),
    )
    bounds = bool(k % 5 != 1) or periodic
    if bounds:
        kw["prior_bounds"] = {p: [float(c.lo), float(c.hi)] for p, c in zip(t.parameters, t.coords)}
    if periodic:
        kw["periodic_parameters"] = list(t.periodic_parameters)
    flow_opts = bool(k % 2)
    fit_kw = {}
    if backend == "zuko":
        if flow_opts:
            kw.update(hidden_features=[8, 8], transforms=2)
        fit_kw = dict(n_epochs=1, batch_size=64)
    elif backend == "flowjax":
        import jax

        kw["key"] = jax.random.key(1)
        if flow_opts:
            kw.update(flow_layers=2, nn_width=8)
        fit_kw = dict(max_epochs=1, batch_size=64, show_progress=False)
    else:
        if flow_opts:
            kw.update(family="student", df=4.0, inflate=1.7)
    a = Aspire(**kw)
    x = np.column_stack([np.clip(g.normal(0.5 * (c.lo + c.hi), 0.1 * (c.hi - c.lo), 120), c.lo + 1e-3, c.hi - 1e-3) for c in t.coords])
    path = tmpfile("c.h5")
    stype = ["importance", "smc"][k % 2]
    where = f"backend={backend} xp={xpn} dtype={dt} bounds={bounds} periodic={periodic} flow_options={flow_opts} sampler={stype}"
    try:
        a.fit(Samples(xp.asarray(x), xp=xp, parameters=list(t.parameters)), **fit_kw)
        if stype == "smc":
            a.sample_posterior(12, sampler="smc", checkpoint_path=path, adaptive=False, n_steps=1, rng=np.random.default_rng(1), sampler_kwargs={"n_steps": 1})
        else:
            a.sample_posterior(12, sampler="importance", checkpoint_path=path)
        counters["config_roundtrips"] += 1
        p2 = Probe(t)
        try:
            b = Aspire.resume_from_file(path, log_likelihood=p2.log_likelihood, log_prior=p2.log_prior)
        except Exception as exc:  # noqa: BLE001
            import traceback

            tb = traceback.extract_tb(exc.__traceback__)
            fr = [f for f in tb if "/aspire/" in f.filename]
            loc = f"{fr[-1].filename.split('/aspire/')[-1]}:{fr[-1].name}" if fr else "?"
            viol.append({"mech": f"C13/resume_from_file-raises/{'real-flow-options' if backend in ('zuko','flowjax') and flow_opts else backend}", "detail": f"{where}: {type(exc).__name__} at {loc}: {str(exc)[:200]}"})
            return
        def settings(obj):
            # the instance's own settings (attributes), not its config_dict(): a key dropped by config_dict must show up
            out = {}
            for name in ("dims", "parameters", "periodic_parameters", "prior_bounds", "bounded_to_unbounded", "bounded_transform", "flow_matching", "device", "flow_backend", "flow_kwargs", "eps"):
                out[name] = getattr(obj, name)
            out["xp"] = ns_name(obj.xp) if obj.xp is not None else None
            out["dtype"] = None if obj.dtype is None else str(obj.dtype).split(".")[-1].lower()
            out["periodic_parameters"] = list(out["periodic_parameters"] or [])
            return out

        ca = settings(a)
        cb = settings(b)
        for c in (ca, cb):
            fk = dict(c.get("flow_kwargs") or {})
            fk.pop("key", None)  # jax key object: compared through the flow's draws, not structurally
            fk.pop("parameters", None)
            c["flow_kwargs"] = fk
        diff = deep_equal(ca, cb, "config")
        if diff:
            key = diff.split(":")[0].split(".")[1] if "." in diff else "?"
            viol.append({"mech": f"C13/config-setting-changed/{key}", "detail": f"{where}: {diff}"})
        # the rebuilt instance's flow must be the same density
        xs = np.column_stack([g.uniform(c.lo + 0.1, c.hi - 0.1, 16) for c in t.coords])
        l1 = np.asarray(to_np(a.flow.log_prob(a.flow.xp.asarray(xs))), dtype=float)
        l2 = np.asarray(to_np(b.flow.log_prob(b.flow.xp.asarray(xs))), dtype=float)
        if not np.allclose(l1, l2, rtol=1e-5, atol=1e-5):
            viol.append({"mech": "C13/rebuilt-instance-has-a-different-proposal", "detail": f"{where}: max |dlog_prob| {np.max(np.abs(l1-l2)):.3g}"})
        nontrivial.add(f"config|{backend}|{xpn}|{dt}|{bounds}|{periodic}|{flow_opts}|{stype}")
    finally:
        rm_tmp(path)


# ------------------------------------------------------------------ generic dictionaries


def gen_value(g, depth):
    r = g.random()
    if r < 0.12:
        return None
    if r < 0.2:
        return {}
    if r < 0.38 and depth < 3:
        return gen_dict(g, depth + 1)
    if r < 0.5:
        return [str(g.choice(["alpha", "x_0", "mass ratio", "é", "", " padded "])) for _ in range(int(g.integers(0, 4)))]
    if r < 0.6:
        return [np.float64(g.normal()), np.float32(g.normal()), np.int64(g.integers(-5, 5)), np.bool_(g.random() < 0.5)][g.integers(4)]
    if r < 0.72:
        return [float(g.normal()), int(g.integers(-100, 100)), bool(g.random() < 0.5), str(g.choice(["logit", "probit", "a b"]))][g.integers(4)]
    if r < 0.9:
        shape = [(3,), (2, 2), (0,), (1, 4)][g.integers(4)]
        return g.standard_normal(shape) if g.random() < 0.6 else g.integers(-3, 3, shape)
    return tuple(float(v) for v in g.normal(size=2))


def gen_dict(g, depth=0):
    suffix = ["", "", "", ".x", "/y", "%2E", " z", "é"]
    return {f"k{depth}_{i}{suffix[int(g.integers(len(suffix)))]}": gen_value(g, depth) for i in range(int(g.integers(1, 5)))}


def dicts_case(case, counters, viol, nontrivial):
    import h5py

    from aspire.utils import load_from_h5_file, recursively_save_to_h5_file

    g = np.random.default_rng(case["seed"])
    path = tmpfile("d.h5")
    try:
        for i in range(case["n"]):
            d = gen_dict(g)
            counters["dict_roundtrips"] += 1
            try:
                with h5py.File(path, "w") as f:
                    recursively_save_to_h5_file(f, "cfg", d)
                with h5py.File(path, "r") as f:
                    r = load_from_h5_file(f, "cfg")
            except Exception as exc:  # noqa: BLE001
                viol.append({"mech": "C13/dict-save-load-raises", "detail": f"{norm(d)}: {type(exc).__name__}: {str(exc)[:200]}"})
                continue
            diff = deep_equal(d, r, "cfg")
            if diff:
                viol.append({"mech": "C13/dict-roundtrip-changed", "detail": f"{diff}  (saved {str(norm(d))[:300]})"})
            nontrivial.add(str(sorted(type(v).__name__ for v in d.values())) + str(i % 7))
    finally:
        rm_tmp(path)


def run_case(case):
    from collections import Counter

    counters = Counter({k: 0 for k in REQUIRED_COUNTERS})
    viol = []
    nontrivial = set()
    {"samples": samples_case, "history": history_case, "transforms": transforms_case, "flow": flow_case, "config": config_case, "dicts": dicts_case}[case["kind"]](
        case, counters, viol, nontrivial
    )
    seen = {}
    for v in viol:
        seen.setdefault(v["mech"], dict(v, count=0))["count"] += 1
    return {"viol": list(seen.values()), "counters": dict(counters), "nontrivial": sorted(nontrivial), "sample": {"case": case, "cells": sorted(nontrivial)[:2]}}
