"""C08 - SMC evidence is the accumulated product of incremental ratios.

Offline recomputation from recorded runs of the real loop: every per-step ratio (on the stored
pre-resampling population, with the temperatures used), the final sum and the error; an L2 event
recorder checks the ratio is taken on the population that is then resampled, before resampling,
exactly once per iteration; metamorphic run pairs from one seed check independence from the
resampling stream, the final enlargement and checkpointing.
"""
from __future__ import annotations

import numpy as np


from .. import env, recorded
from ..harness import RngProxy, to_np

ID = "C08"
LEVEL = "exploration"
RULE = (
    "runs = analytic-family targets (1-3 dims) x {MiniPCNSMC, EmceeSMC, BlackJAXSMC} x schedules (adaptive/fixed/min_step/max_n_steps) x "
    "preconditioning x namespaces x widths x n_final_samples x checkpoint cadence; each base run spawns metamorphic partners (other resampling "
    "stream, n_final_samples in {None,N/2,3N}, checkpoint off / cadence k). non-trivial = run with >=2 iterations; distinct = distinct "
    "(sampler, namespace, dtype, schedule kind, preconditioning, iterations, partner kinds)"
)
ASSUMPTIONS = [
    "float64 reference log-mean-exp on the stored populations; tolerance eps(dtype)*(64+64 sqrt N+16 max|log w|)",
    "per-step variance compared ddof-agnostically (5/N relative)",
    "stand-in Metropolis kernels",
]
REQUIRED_COUNTERS = ["runs", "ratios_recomputed", "sums_checked", "metamorphic_pairs"]


def cases(tier, seed):
    n = {"quick": 70, "thorough": 2400}[tier]
    return [{"seed": [seed, 8, k]} for k in range(n)]


def gen_cfg(g):
    cfg = recorded.default_cfg(g)
    r = g.random()
    cfg["sampler"] = "smc" if r < 0.7 else ("emcee_smc" if r < 0.9 else "blackjax_smc")
    cfg["xp"] = "jax" if cfg["sampler"] == "blackjax_smc" else str(g.choice(["numpy", "numpy", "numpy", "torch", "jax"]))
    cfg["dtype"] = None if cfg["sampler"] == "blackjax_smc" else [None, "float64", "float32"][g.integers(3)]
    from ..targets import Target

    t = Target.from_desc(cfg["target"])
    cfg["precond"] = recorded.random_precond(g, t)
    if cfg["sampler"] == "blackjax_smc":
        cfg["n"] = int(g.integers(16, 40))
        cfg["kernel_steps"] = 2
    q = g.random()
    if q < 0.3:
        cfg["opts"] = {"adaptive": False, "n_steps": int(g.integers(1, 7))}
    elif q < 0.45 and cfg["sampler"] == "smc":
        cfg["opts"]["min_step"] = float(g.uniform(0.05, 0.4))
    elif q < 0.6 and cfg["sampler"] == "smc":
        cfg["opts"]["max_n_steps"] = int(g.integers(2, 8))
    elif q < 0.75 and cfg["sampler"] == "smc":
        # a schedule cut short by the step cap: the run ends below temperature 1 (and may still enlarge its final population)
        nst = int(g.integers(3, 8))
        cfg["opts"] = {"adaptive": False, "n_steps": nst, "max_n_steps": int(g.integers(1, nst))}
        if g.random() < 0.6:
            cfg["opts"]["n_final_samples"] = int(g.choice([cfg["n"] // 2, 2 * cfg["n"]]))
    if g.random() < 0.3:
        cfg["opts"]["n_final_samples"] = int(g.choice([cfg["n"] // 2, 3 * cfg["n"]]))
    cfg["flow"]["truncate"] = bool(g.random() < 0.5)
    if g.random() < 0.3 and cfg["sampler"] != "blackjax_smc":
        # likelihood exactly zero on part of the prior support: zero-weight particles in the initial population
        c0 = t.coords[0]
        if c0.kind == "box":
            # cut placed below the proposal's centre, so that at least about half of the draws keep a non-zero likelihood
            from ..harness import proposal_for

            fk = proposal_for(t, truncate=False, widen=cfg["flow"]["widen"], shift=cfg["flow"].get("shift", 0.0))
            cut = float(fk["loc"][0] - g.uniform(0.0, 1.0) * fk["scale"][0])
            if c0.lo < cut < c0.hi:
                cfg["cut_below"] = cut
    return cfg


def run_case(case):
    from collections import Counter

    counters = Counter({k: 0 for k in REQUIRED_COUNTERS})
    viol = []
    g = np.random.default_rng(case["seed"])
    cfg = gen_cfg(g)
    shown = {k: cfg.get(k) for k in ("xp", "dtype", "sampler", "n", "opts", "precond", "kernel_steps", "cut_below")}
    where = f"{shown}"
    base = recorded.record(cfg)
    counters["runs"] += 1
    counters["runs_with_zero_weight_particles"] += int(cfg.get("cut_below") is not None)
    if base.exc is not None:
        raise base.exc
    recorded.judge_evidence(base, where, viol, counters)
    T = len(base.hist["beta"])
    # the per-step ratio and its variance are functions of the population and the temperature pair - not of the array
    # namespace the population happens to live in: the same recorded population gives the same values in all three
    if T >= 1 and base.pops:
        from aspire.samples import SMCSamples

        pop = base.pops[0]
        b1 = float(base.hist["beta"][0])
        vals = {}
        for ns in ("numpy", "torch", "jax"):
            xq = env.xp_of(ns)
            sq = SMCSamples(x=xq.asarray(pop["x"].astype(float)), log_likelihood=xq.asarray(pop["ll"].astype(float)), log_prior=xq.asarray(pop["lp"].astype(float)),
                            log_q=xq.asarray(pop["lq"].astype(float)), beta=float(pop["beta"]), xp=xq, dtype="float64")
            vals[ns] = (float(to_np(sq.log_evidence_ratio(b1))), float(to_np(sq.log_evidence_ratio_variance(b1))))
        counters["namespace_agreement_checked"] += 1
        r0, v0 = vals["numpy"]
        for ns in ("torch", "jax"):
            r1, v1 = vals[ns]
            if np.isfinite(r0) and not (abs(r1 - r0) <= 1e-9 * (1 + abs(r0))):
                viol.append({"mech": "C08/ratio-depends-on-the-array-namespace", "detail": f"{where}: first population, beta 0->{b1}: numpy {r0!r}, {ns} {r1!r}"})
            if np.isfinite(v0) and not (abs(v1 - v0) <= 1e-9 * abs(v0) + 1e-300):
                viol.append({"mech": "C08/variance-depends-on-the-array-namespace", "detail": f"{where}: first population ({len(pop['x'])} particles), beta 0->{b1}: numpy {v0!r}, {ns} {v1!r}"})
    partners = []
    if cfg["sampler"] == "smc":
        # (a) different resampling stream: the first ratio depends on the initial population only
        c2 = dict(cfg, rng_seed=cfg["rng_seed"] + 1)
        p = recorded.record(c2)
        counters["metamorphic_pairs"] += 1
        partners.append("stream")
        if p.exc is not None:
            raise p.exc
        if p.hist["log_norm_ratio"][0] != base.hist["log_norm_ratio"][0] or p.hist["beta"][0] != base.hist["beta"][0]:
            viol.append({"mech": "C08/first-ratio-depends-on-resampling-stream", "detail": f"{where}: r1 {base.hist['log_norm_ratio'][0]!r} vs {p.hist['log_norm_ratio'][0]!r}"})
        # (b) n_final_samples does not change the estimate
        for nf in (None, max(2, cfg["n"] // 2), 3 * cfg["n"]):
            if nf == cfg["opts"].get("n_final_samples"):
                continue
            o = dict(cfg["opts"])
            if nf is None:
                o.pop("n_final_samples", None)
            else:
                o["n_final_samples"] = nf
            p = recorded.record(dict(cfg, opts=o))
            counters["metamorphic_pairs"] += 1
            partners.append(f"final{nf}")
            if p.exc is not None:
                raise p.exc
            if p.log_evidence != base.log_evidence or p.log_evidence_error != base.log_evidence_error or p.hist["beta"] != base.hist["beta"]:
                viol.append({"mech": "C08/evidence-depends-on-final-enlargement", "detail": f"{where}: n_final_samples={nf}: {p.log_evidence!r} vs {base.log_evidence!r}"})
            recorded.judge_evidence(p, where + f" [n_final_samples={nf}]", viol, counters)
            break
        # (c) checkpointing on/off and cadence
        for mode in ("off", int(g.integers(2, 5))):
            if mode == "off":
                p = recorded.record(cfg, with_callback=False)
            else:
                p = recorded.record(dict(cfg, ckpt_every=mode))
            counters["metamorphic_pairs"] += 1
            partners.append(f"ckpt{mode}")
            if p.exc is not None:
                raise p.exc
            d = recorded.same_runs(base, p, what=("beta", "evidence", "series", "final"))
            if d:
                viol.append({"mech": "C08/run-depends-on-checkpointing", "detail": f"{where}: checkpoint mode {mode}: {d[:3]}"})
    if cfg["sampler"] in ("smc", "emcee_smc") and g.random() < 0.5:
        # state carried across calls: a second fresh run on the same sampler object must be judged on its own iterations only
        again = recorded.record_again(base, rng=np.random.default_rng(cfg["rng_seed"] + 17) if cfg["sampler"] == "smc" else None)
        if again.exc is not None:
            raise again.exc
        counters["second_runs_on_same_sampler"] += 1
        partners.append("again")
        recorded.judge_evidence(again, where + " [second fresh run on the same sampler object]", viol, counters)
    if cfg["sampler"] in ("smc", "emcee_smc") and T >= 3 and len(base.payloads) >= 3 and g.random() < 0.5:
        # a clean continuation from a checkpoint in which the (then unused) n_samples argument differs from the size of the
        # checkpointed population: every ratio is still the mean over the population it was computed on
        pay = base.payloads[len(base.payloads) // 2 - 1]
        cfg_n = dict(cfg, n=int(cfg["n"] * g.choice([2, 5])) + 3)
        cont = recorded.record(cfg_n, resume_from=pay["bytes"], rng=np.random.default_rng(cfg["rng_seed"] + 31) if cfg["sampler"] == "smc" else None)
        if cont.exc is not None:
            raise cont.exc
        cont.resumed_from_iteration = int(pay["iteration"])
        counters["continued_with_another_n_samples_argument"] += 1
        partners.append("othern")
        recorded.judge_evidence(cont, where + f" [continued from iteration {pay['iteration']} with n_samples={cfg_n['n']} (population {cfg['n']})]", viol, counters)
    if cfg["sampler"] == "smc" and T >= 3 and g.random() < 0.5:
        # a fault in the middle of an iteration, then continuation from the *live* state dictionary of the last checkpoint
        # (what a user who keeps the dictionary handed to the callback resumes from)
        from ..harness import InjectedFault, Probe

        k = int(base.probe.n_like_calls * g.uniform(0.3, 0.8))
        pf = Probe(base.target, fault_like_at=k, cut_below=cfg.get("cut_below"))
        f = recorded.record(cfg, probe=pf)
        if isinstance(f.exc, InjectedFault) and f.payloads:
            cont = recorded.record(cfg, resume_from=f.payloads[-1]["state"], rng=np.random.default_rng(cfg["rng_seed"] + 29))
            if cont.exc is not None:
                raise cont.exc
            cont.resumed_from_iteration = int(f.payloads[-1]["iteration"])
            counters["continued_from_live_state_after_fault"] += 1
            partners.append("livedict")
            recorded.judge_evidence(cont, where + f" [continued from the live state dictionary of iteration {f.payloads[-1]['iteration']} after a fault at likelihood call {k}]", viol, counters)
        elif f.exc is not None and not isinstance(f.exc, InjectedFault):
            raise f.exc
    sched = "fixed" if not cfg["opts"].get("adaptive", True) else ("floor" if "min_step" in cfg["opts"] else ("cap" if "max_n_steps" in cfg["opts"] else "adaptive"))
    sig = f"{cfg['sampler']}|{cfg['xp']}|{cfg['dtype']}|{sched}|{cfg['precond']['preconditioning']}{sorted(cfg['precond']['kwargs'])}|{T}|{'+'.join(partners)}"
    seen = {}
    for v in viol:
        seen.setdefault(v["mech"], dict(v, count=0))["count"] += 1
    return {
        "viol": list(seen.values()),
        "counters": dict(counters),
        "nontrivial": [sig] if T >= 2 else [],
        "sample": {"cfg": shown, "beta": base.hist["beta"], "log_norm_ratio": base.hist["log_norm_ratio"], "log_evidence": base.log_evidence, "true_logZ": base.target.log_z()},
    }
