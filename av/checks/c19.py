"""C19 - temporary overrides are fully restored on every exit path.

Fault enumeration over context nestings: every nesting (depth <= 3) of enable_pool (closing /
not closing, with / without prior parallelisation) and auto_checkpoint (two files, cadences), with
a body action (nothing / importance sampling / fit) at every body position and an exception
injected at each position in turn (a direct raise, or a fault inside the user's likelihood during
sampling).  At every context exit the instance's log_likelihood, log_prior and checkpoint defaults
(presence and content) are compared with a snapshot taken at that context's entry; the pool
double records close()/join(); the injected exception must propagate unchanged.
"""
from __future__ import annotations

import copy
import itertools

import numpy as np

from .. import env
from ..harness import InjectedFault, Probe, rm_tmp, tmpfile
from ..targets import Coord, Target

ID = "C19"
LEVEL = "fault_enumeration"
RULE = (
    "histories = (nesting of up to 3 contexts drawn from {pool close, pool no-close+prior, pool close+prior, auto_checkpoint file1 every=1, "
    "auto_checkpoint file2 every=3, auto_checkpoint file1 again with other options, pool whose join() raises}, action in {nothing, sample, fit} at each of the 2D-1 body positions, exception at one position or none, "
    "kind of exception {raise an Exception, raise a KeyboardInterrupt subclass, fault inside the likelihood while sampling}, instance {fresh, already carrying defaults from resume_from_file, real "
    "ThreadPool}); exhaustive for depth <= 2 (quick) / <= 3 with all single-action bodies (thorough), seeded sample beyond. non-trivial = history with "
    "an exception and depth >= 2, or a sampling action inside a pool context; distinct = the history tuple. Per chunk also: pool contexts whose set-up is refused (callable without map_fn), "
    "and one handler object used twice (sequentially, nested, nested with an exception, likelihood reassigned in between, inside a checkpoint context)"
)
ASSUMPTIONS = [
    "pool = recording double with map/close/join (a real multiprocessing.pool.ThreadPool in a subset)",
    "state compared: identity of log_likelihood / log_prior, presence and deep content of _checkpoint_defaults",
]
REQUIRED_COUNTERS = ["histories", "context_exits_checked", "exceptions_injected", "pool_close_checks", "samples_inside_pool"]
EXHAUSTIVE = True

CTX = ["Pc", "Pnp", "Pcp", "K1", "K2", "K1b", "Pf"]  # K1b: the same file as K1 with other options; Pf: a pool whose join() fails
ACTIONS = ["n", "s", "f"]


class Boom(Exception):
    pass


class Interrupt(KeyboardInterrupt):
    """An exit that is not an Exception subclass (Ctrl-C, SystemExit): contexts must restore on these too."""


class TeardownFailed(RuntimeError):
    """Raised by the failing pool double when the context closes it (a worker died, an executor without join(), ...)."""


class PoolDouble:
    fail_join = False

    def __init__(self):
        self.closed = 0
        self.joined = 0
        self.maps = 0

    def map(self, fn, it):
        self.maps += 1
        return list(map(fn, it))

    def close(self):
        self.closed += 1

    def join(self):
        self.joined += 1
        if self.fail_join:
            raise TeardownFailed("join() failed")

    def terminate(self):
        self.closed += 1
        self.terminated = True


def cases(tier, seed):
    hist = []
    for D in (1, 2, 3):
        for nest in itertools.product(CTX, repeat=D):
            npos = 2 * D - 1
            if D <= 2:
                bodies = list(itertools.product(ACTIONS, repeat=npos))
            else:
                # depth 3: bodies with at most two non-trivial actions
                bodies = [b for b in itertools.product(ACTIONS, repeat=npos) if sum(x != "n" for x in b) <= (2 if tier == "thorough" else 1)]
            for body in bodies:
                for exc_pos in [None] + list(range(npos)):
                    kinds = ["raise"] if exc_pos is None else (["raise", "interrupt"] if body[exc_pos] != "s" else ["raise", "interrupt", "fault"])
                    for kind in kinds:
                        hist.append({"nest": list(nest), "body": list(body), "exc": exc_pos, "kind": kind})
    g = np.random.default_rng([seed, 19])
    if tier == "quick":
        # exhaustive for depth <= 2, seeded sample of depth 3
        d12 = [h for h in hist if len(h["nest"]) <= 2]
        d3 = [h for h in hist if len(h["nest"]) == 3]
        idx = g.choice(len(d3), size=min(900, len(d3)), replace=False)
        hist = d12 + [d3[i] for i in sorted(idx)]
    for i, h in enumerate(hist):
        # how the context objects come into being: at the `with` statement; all built first and entered later; built first and
        # the instance's likelihood replaced by the user before entering (the state "on entry" is what must come back)
        h["prep"] = ["inline", "inline", "prepared", "inline", "reassigned"][i % 5]
        h["inst"] = ["fresh", "resumed", "fresh", "threadpool"][i % 4] if any(c.startswith("P") for c in h["nest"]) or i % 2 else ["fresh", "resumed"][i % 2]
    per = 60
    return [{"hists": hist[i : i + per], "seed": [seed, 19, i]} for i in range(0, len(hist), per)]


def snapshot(a):
    has = hasattr(a, "_checkpoint_defaults")
    return {
        "ll": a.log_likelihood,
        "lp": a.log_prior,
        "has_defaults": has,
        "defaults": copy.deepcopy(a._checkpoint_defaults) if has else None,
        "defaults_id": id(a._checkpoint_defaults) if has else None,
    }


def compare(a, entry, where, viol, level, ctx):
    now = snapshot(a)
    if now["ll"] is not entry["ll"]:
        viol.append({"mech": f"C19/log_likelihood-not-restored/{ctx[0]}", "detail": f"{where}: after leaving context #{level} ({ctx}) log_likelihood is {now['ll']!r}"})
    if now["lp"] is not entry["lp"]:
        viol.append({"mech": f"C19/log_prior-not-restored/{ctx[0]}", "detail": f"{where}: after leaving context #{level} ({ctx}) log_prior is {now['lp']!r}"})
    if now["has_defaults"] != entry["has_defaults"]:
        viol.append({"mech": "C19/checkpoint-defaults-presence-changed", "detail": f"{where}: after leaving context #{level} ({ctx}): defaults present={now['has_defaults']}, at entry {entry['has_defaults']}"})
    elif now["has_defaults"]:
        d0, d1 = entry["defaults"], now["defaults"]
        keys = ("path", "every", "save_config", "save_flow")
        if any(d0.get(k) != d1.get(k) for k in keys):
            viol.append({"mech": "C19/checkpoint-defaults-content-changed", "detail": f"{where}: after leaving context #{level} ({ctx}): {d1} vs entry {d0}"})


def run_history(h, g, counters, viol, t, data, files):
    from multiprocessing.pool import ThreadPool

    from aspire import Aspire

    xp = env.xp_of("numpy")
    probe = MapProbe(t)
    inst = h["inst"]
    if inst == "resumed":
        a = Aspire.resume_from_file(files["seed"], log_likelihood=probe.log_likelihood, log_prior=probe.log_prior)
    else:
        a = Aspire(
            log_likelihood=probe.log_likelihood,
            log_prior=probe.log_prior,
            dims=1,
            parameters=list(t.parameters),
            prior_bounds=t.prior_bounds,
            flow_backend="avnp",
            xp=xp,
            family="gauss",
            loc=[0.5],
            scale=[2.0],
            fixed=True,
        )
        a.fit(data)
    D = len(h["nest"])
    pools = {}
    where = f"nest={h['nest']} body={h['body']} exception@{h['exc']} ({h['kind']}) instance={inst} contexts={h.get('prep', 'inline')}"
    injected = {"exc": None}
    counters["histories"] += 1

    def act(pos, in_pool):
        what = h["body"][pos]
        if h["exc"] == pos and h["kind"] in ("raise", "interrupt"):
            injected["exc"] = Boom(f"position {pos}") if h["kind"] == "raise" else Interrupt(f"position {pos}")
            counters["exceptions_injected"] += 1
            raise injected["exc"]
        if what == "s":
            if h["exc"] == pos and h["kind"] == "fault":
                probe.fault_like_at = probe.n_like_calls
                counters["exceptions_injected"] += 1
            if in_pool:
                counters["samples_inside_pool"] += 1
            a.sample_posterior(8, sampler="importance")
        elif what == "f":
            a.fit(data)

    def make(ctx, level):
        if ctx.startswith("P"):
            pool = ThreadPool(1) if (inst == "threadpool" and ctx != "Pf") else PoolDouble()
            pool.fail_join = ctx == "Pf"
            pools[level] = (pool, ctx)
            return a.enable_pool(pool, close_pool=(ctx in ("Pc", "Pcp", "Pf")), parallelize_prior=(ctx in ("Pnp", "Pcp")))
        if ctx == "K1b":
            return a.auto_checkpoint(files["f1"], every=7, save_config=False, save_flow=False)
        return a.auto_checkpoint(files["f1"] if ctx == "K1" else files["f2"], every=1 if ctx == "K1" else 3)

    prepared = {}
    if h.get("prep") in ("prepared", "reassigned"):
        for lv, c in enumerate(h["nest"]):
            prepared[lv] = make(c, lv)
        if h["prep"] == "reassigned":
            a.log_likelihood = probe.log_likelihood_alt
            counters["likelihood_reassigned_before_entry"] += 1
        counters["contexts_built_ahead_of_entry"] += len(prepared)

    def level_run(level, in_pool):
        ctx = h["nest"][level]
        entry = snapshot(a)
        try:
            with (prepared[level] if level in prepared else make(ctx, level)):
                inp = in_pool or ctx.startswith("P")
                act(level, inp)  # before the inner context
                if level + 1 < D:
                    level_run(level + 1, inp)
                    act(2 * D - 2 - level, inp)  # after the inner context
        finally:
            counters["context_exits_checked"] += 1
            compare(a, entry, where, viol, level, ctx)
            if level in pools:
                pool, c = pools[level]
                counters["pool_close_checks"] += 1
                want = c in ("Pc", "Pcp", "Pf")
                if isinstance(pool, PoolDouble):
                    if (pool.closed > 0) != want or (pool.joined > 0) != want:
                        viol.append({"mech": "C19/pool-closed-iff-asked-violated", "detail": f"{where}: context #{level} ({c}): close() called {pool.closed}x, join() {pool.joined}x, close_pool={want}"})
                else:
                    state = getattr(pool, "_state", None)
                    closed = str(state).upper() not in ("RUN", "0")
                    if closed != want:
                        viol.append({"mech": "C19/pool-closed-iff-asked-violated", "detail": f"{where}: ThreadPool state {state} with close_pool={want}"})
                    if not closed:
                        pool.terminate()

    top = snapshot(a)
    raised = None
    try:
        level_run(0, False)
    except (Boom, InjectedFault, Interrupt, TeardownFailed) as exc:
        raised = exc
    teardown = "Pf" in h["nest"]
    counters["histories_with_failing_pool_teardown"] += int(teardown)
    if teardown:
        # the failure of the teardown itself propagates (possibly instead of the body's exception); what is judged is the
        # state after each exit (above) and after all contexts (below)
        compare(a, top, where + " [after all contexts]", viol, -1, "all")
        return isinstance(raised, TeardownFailed)
    expect_exc = h["exc"] is not None
    if expect_exc and raised is None:
        viol.append({"mech": "C19/injected-exception-swallowed", "detail": where})
    elif expect_exc and h["kind"] in ("raise", "interrupt") and raised is not injected["exc"]:
        viol.append({"mech": "C19/exception-replaced-on-the-way-out", "detail": f"{where}: got {raised!r}"})
    elif not expect_exc and raised is not None:
        raise raised
    compare(a, top, where + " [after all contexts]", viol, -1, "all")
    nontriv = (expect_exc and D >= 2) or ("s" in h["body"] and any(c.startswith("P") for c in h["nest"]))
    return nontriv


class MapProbe(Probe):
    """User callables that accept map_fn (as the multiprocessing recipe requires)."""

    def log_likelihood(self, samples, map_fn=map):
        out = Probe.log_likelihood(self, samples)
        if map_fn is not map:
            list(map_fn(abs, [1, -1]))
        return out

    def log_prior(self, samples, map_fn=map):
        return Probe.log_prior(self, samples)

    def log_likelihood_alt(self, samples, map_fn=map):
        """A second likelihood function of the same user (what they assign to the instance later on)."""
        return MapProbe.log_likelihood(self, samples, map_fn=map_fn)


def refused_entries(g, counters, viol, t, data, files):
    """Contexts that cannot be set up (the documented ValueError: a callable without `map_fn`): whether the refusal comes when
    the context object is built or when it is entered, the instance must be left as it was - also inside other contexts."""
    from aspire import Aspire

    xp = env.xp_of("numpy")
    probe = MapProbe(t)

    def plain_prior(samples):
        return probe.log_prior(samples)

    def plain_likelihood(samples):
        return probe.log_likelihood(samples)

    for outer in (None, "K", "P"):
        for which in ("prior", "likelihood"):
            a = Aspire(log_likelihood=probe.log_likelihood if which == "prior" else plain_likelihood, log_prior=plain_prior if which == "prior" else probe.log_prior,
                       dims=1, parameters=list(t.parameters), prior_bounds=t.prior_bounds, flow_backend="avnp", xp=xp, family="gauss", loc=[0.5], scale=[2.0], fixed=True)
            if which == "likelihood" and outer == "P":
                continue  # the outer pool context itself needs a likelihood with map_fn
            a.fit(data)
            where = f"refused entry: {which} without map_fn, parallelize_prior={which == 'prior'}, outer context {outer}"
            import contextlib

            octx = contextlib.nullcontext() if outer is None else (a.auto_checkpoint(files["f1"], every=2) if outer == "K" else a.enable_pool(PoolDouble(), close_pool=False))
            top = snapshot(a)
            with octx:
                entry = snapshot(a)
                pool = PoolDouble()
                refused = None
                try:
                    with a.enable_pool(pool, close_pool=True, parallelize_prior=(which == "prior")):
                        pass
                except ValueError as exc:
                    refused = exc
                counters["refused_entries_checked"] += 1
                if refused is None:
                    counters["refused_entries_accepted_by_the_library"] += 1
                compare(a, entry, where, viol, 1 if outer else 0, "Prefused")
                if refused is not None:
                    try:
                        a.sample_posterior(6, sampler="importance")
                    except Exception as exc:  # noqa: BLE001
                        viol.append({"mech": "C19/instance-unusable-after-refused-entry", "detail": f"{where}: {type(exc).__name__}: {str(exc)[:200]}"})
            compare(a, top, where + " [after all contexts]", viol, -1, "all")


def reused_handlers(g, counters, viol, t, data, files):
    """One context object used more than once: one after the other, and nested in itself (`with h: ... with h:`), with the
    likelihood reassigned in between and exceptions on the way out. Each exit must give back what its entry found."""
    from aspire import Aspire

    xp = env.xp_of("numpy")
    probe = MapProbe(t)
    for pattern in ("sequential", "nested", "nested-raise", "reassigned-between", "nested-in-checkpoint-context"):
        a = Aspire(log_likelihood=probe.log_likelihood, log_prior=probe.log_prior, dims=1, parameters=list(t.parameters), prior_bounds=t.prior_bounds,
                   flow_backend="avnp", xp=xp, family="gauss", loc=[0.5], scale=[2.0], fixed=True)
        a.fit(data)
        pool = PoolDouble()
        h = a.enable_pool(pool, close_pool=False, parallelize_prior=bool(g.random() < 0.5))
        where = f"one pool handler object used twice: {pattern}"
        top = snapshot(a)
        counters["reused_handler_patterns_checked"] += 1
        try:
            if pattern == "sequential":
                with h:
                    a.sample_posterior(6, sampler="importance")
                compare(a, top, where + " [after first use]", viol, 0, "Preused")
                with h:
                    pass
            elif pattern == "reassigned-between":
                with h:
                    pass
                a.log_likelihood = probe.log_likelihood_alt
                top = snapshot(a)
                with h:
                    a.sample_posterior(6, sampler="importance")
            elif pattern == "nested-in-checkpoint-context":
                with a.auto_checkpoint(files["f1"], every=2):
                    inner_entry = snapshot(a)
                    with h:
                        with h:
                            pass
                        mid = a.log_likelihood
                    compare(a, inner_entry, where + " [inside the checkpoint context]", viol, 1, "Preused")
            else:
                with h:
                    outer_view = snapshot(a)
                    try:
                        with h:
                            if pattern == "nested-raise":
                                raise Boom("inside the inner use")
                    except Boom:
                        pass
                    compare(a, outer_view, where + " [after the inner exit]", viol, 1, "Preused")
        except Exception as exc:  # noqa: BLE001
            viol.append({"mech": "C19/reused-handler-raises", "detail": f"{where}: {type(exc).__name__}: {str(exc)[:200]}"})
        compare(a, top, where + " [after all contexts]", viol, -1, "all")


def run_case(case):
    from collections import Counter

    from aspire import Aspire
    from aspire.samples import Samples

    counters = Counter({k: 0 for k in REQUIRED_COUNTERS})
    viol = []
    g = np.random.default_rng(case["seed"])
    xp = env.xp_of("numpy")
    t = Target([Coord("box", -6.0, 6.0, 0.5, 0.8)])
    data = Samples(xp.asarray(np.random.default_rng(1).normal(0.5, 1.0, (40, 1))), xp=xp, parameters=list(t.parameters))
    files = {"f1": tmpfile("one.h5"), "f2": tmpfile("two.h5"), "seed": tmpfile("seed.h5")}
    nontrivial = []
    try:
        # a file for resume_from_file instances (config + flow, no checkpoint)
        p0 = MapProbe(t)
        a0 = Aspire(log_likelihood=p0.log_likelihood, log_prior=p0.log_prior, dims=1, parameters=list(t.parameters), prior_bounds=t.prior_bounds, flow_backend="avnp", xp=xp, family="gauss", loc=[0.5], scale=[2.0], fixed=True)
        a0.fit(data)
        a0.sample_posterior(8, sampler="importance", checkpoint_path=files["seed"])
        refused_entries(g, counters, viol, t, data, files)
        reused_handlers(g, counters, viol, t, data, files)
        for h in case["hists"]:
            before = len(viol)
            if run_history(h, g, counters, viol, t, data, files):
                nontrivial.append(f"{'>'.join(h['nest'])}|{''.join(h['body'])}|{h['exc']}|{h['kind']}|{h['inst']}")
            seen = {}
            for v in viol[before:]:
                seen.setdefault(v["mech"], v)
            viol[before:] = list(seen.values())
    finally:
        for f in files.values():
            rm_tmp(f)
    agg = {}
    for v in viol:
        agg.setdefault(v["mech"], dict(v, count=0))["count"] += 1
    return {"viol": list(agg.values()), "counters": dict(counters), "nontrivial": nontrivial, "sample": {"histories": case["hists"][:2]}}
