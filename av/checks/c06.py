"""C06 - the SMC temperature schedule strictly increases, ends exactly at 1, terminates.

Trace monitor over whole runs of the real `sample()` loop (scripted populations with the
identity kernel and analytic peaked targets with the moving stand-in kernel) for every schedule
option, plus a logical-step watchdog.  Liveness is restated as safety + bounded progress: a
temperature that does not increase is a stall witness (violation at once); exhausting the
kernel-invocation budget without such a witness is inconclusive.
"""
from __future__ import annotations

import numpy as np

from .. import smcrun
from ..harness import make_aspire, to_np
from ..targets import Coord, Target

ID = "C06"
LEVEL = "exploration"
RULE = (
    "runs = scripted populations (log-weight spreads 1e-3..1e9, N 2..500, identity kernel) and peaked analytic targets (sigma down to 1e-4 of the "
    "proposal width, moving kernel) x {adaptive, fixed n for every n in 1..300 (thorough) / a spread of n (quick)} x min_step x max_n_steps x "
    "scalar/ramped target x n_final_samples x {MiniPCNSMC, EmceeSMC} x namespaces; non-trivial = run with >=2 iterations; distinct = distinct "
    "(mode, sampler, option signature, spread decade, N decade, iterations)"
)
ASSUMPTIONS = [
    "termination is restated as: beta strictly increases at every observed iteration and the run ends within 20000 kernel invocations",
    "valid options: 0<target<1 (or increasing pair), 0<min_step<=0.7, max_n_steps>=1, n_steps>=1",
    "with max_n_steps the final temperature may be < 1 only when iterations == max_n_steps",
]
REQUIRED_COUNTERS = ["runs", "iterations_observed", "adaptive_runs", "fixed_runs", "runs_with_cap", "runs_with_floor"]

KINDS = ["gauss", "heavy", "bimodal", "outlier", "ties", "peaked"]


def cases(tier, seed):
    out = []
    k = 0
    # fixed schedules: every n (float accumulation of 1/n)
    ns = range(1, 301) if tier == "thorough" else [1, 2, 3, 5, 7, 10, 11, 13, 20, 33, 49, 64, 100, 101, 128, 150, 200, 256, 299, 300]
    for n in ns:
        out.append({"mode": "fixed", "n_steps": int(n), "seed": [seed, 6, k]})
        k += 1
    na = {"quick": 260, "thorough": 8000}[tier]
    for b in range(na):
        out.append({"mode": "random", "seed": [seed, 66, k], "bj": b % 32 == 5})
        k += 1
    return out


def judge_schedule(betas, opts, res, where, viol, counters):
    T = len(betas)
    counters["iterations_observed"] += T
    b = np.asarray(betas, dtype=float)
    if T == 0:
        viol.append({"mech": "C06/no-iterations", "detail": where})
        return
    if not (b[0] > 0):
        viol.append({"mech": "C06/first-beta-not-positive", "detail": f"{where}: beta_1={b[0]!r}"})
    if (np.diff(b) <= 0).any():
        i = int(np.argmax(np.diff(b) <= 0))
        viol.append({"mech": "C06/beta-not-strictly-increasing", "detail": f"{where}: beta[{i}]={b[i]!r} beta[{i+1}]={b[i+1]!r}"})
    if (b > 1.0).any():
        viol.append({"mech": "C06/beta-above-one", "detail": f"{where}: max beta {b.max()!r}"})
    cap = opts.get("max_n_steps")
    n_fixed = opts.get("n_steps") if not opts.get("adaptive", True) else None
    if cap is not None and T > cap:
        viol.append({"mech": "C06/step-cap-exceeded", "detail": f"{where}: {T} iterations with max_n_steps={cap}"})
    if b[-1] != 1.0 and not (cap is not None and T == cap):
        viol.append({"mech": "C06/final-beta-not-one", "detail": f"{where}: final beta {b[-1]!r} after {T} iterations"})
    if n_fixed is not None:
        want = n_fixed if cap is None else min(n_fixed, cap)
        if T != want:
            viol.append(
                {"mech": "C06/fixed-schedule-iteration-count", "detail": f"{where}: n_steps={n_fixed} performed {T} iterations (last betas {b[-3:].tolist()})"}
            )
    ms = opts.get("min_step")
    if ms is not None and opts.get("adaptive", True) and T >= 2:
        inc = np.diff(np.concatenate([[0.0], b]))
        nonfinal = inc[:-1]
        if (nonfinal < ms * (1 - 1e-9)).any():
            i = int(np.argmin(nonfinal))
            viol.append({"mech": "C06/min-step-not-honoured", "detail": f"{where}: increment {nonfinal[i]!r} < min_step {ms}"})


def draw_opts(g, sampler, fixed_n=None):
    """Schedule options of one run (also used for further runs on the same sampler object)."""
    opts = {}
    xp_hint = None
    if fixed_n is not None:
        opts = {"adaptive": False, "n_steps": fixed_n}
        if g.random() < 0.15:
            opts["n_final_samples"] = int(g.integers(2, 40))
        xp_hint = "numpy" if fixed_n > 40 else None
    else:
        if g.random() < 0.25:
            opts = {"adaptive": False, "n_steps": int(g.integers(1, 60))}
        else:
            opts = {"adaptive": True}
            if g.random() < 0.3:
                t0 = float(g.uniform(0.05, 0.5))
                opts["target_efficiency"] = (t0, float(g.uniform(t0 + 0.05, 0.97)))
                opts["target_efficiency_rate"] = float(g.choice([1.0, 0.5, 3.0]))
            else:
                opts["target_efficiency"] = float(g.uniform(0.05, 0.95))
        if sampler == "smc":
            r = g.random()
            if r < 0.25:
                opts["min_step"] = float(10 ** g.uniform(-3, np.log10(0.7)))
            if 0.15 < r < 0.5:
                opts["max_n_steps"] = int(g.integers(1, 51))
        if g.random() < 0.2:
            opts["n_final_samples"] = int(g.integers(2, 60))
    if sampler == "smc":
        opts["rng"] = np.random.default_rng(int(g.integers(2**31)))
        opts["sampler_kwargs"] = {"n_steps": 1}
    else:
        opts["sampler_kwargs"] = {"nsteps": 1, "progress": False}
    return opts, xp_hint


def run_case(case):
    from collections import Counter

    counters = Counter({k: 0 for k in REQUIRED_COUNTERS})
    viol = []
    g = np.random.default_rng(case["seed"])
    xpn = str(g.choice(["numpy", "numpy", "numpy", "torch", "jax"]))
    sampler = str(g.choice(["smc", "smc", "smc", "emcee_smc"]))
    opts, xp_hint = draw_opts(g, sampler, case["n_steps"] if case["mode"] == "fixed" else None)
    xpn = xp_hint or xpn
    scripted = bool(g.random() < 0.7)
    if case.get("bj"):
        scripted = False
        # the third SMC variant shares the tempering loop; its kernel needs jax (a handful per tier: jit compilation is slow)
        import jax

        sampler, xpn = "blackjax_smc", "jax"
        for k in ("min_step", "max_n_steps"):
            opts.pop(k, None)
        opts["rng_key"] = jax.random.key(int(g.integers(2**31)))
        opts["rng"] = np.random.default_rng(int(g.integers(2**31)))
        opts["sampler_kwargs"] = [{"algorithm": "rwmh", "n_steps": 1, "sigma": 0.3}, {"algorithm": "nuts", "n_steps": 1, "step_size": 0.3}, {"algorithm": "hmc", "n_steps": 1, "step_size": 0.3}][int(g.integers(3))]
        if "n_steps" in opts:
            opts["n_steps"] = min(opts["n_steps"], 8)
    rec = smcrun.Recorder(abort_on_stall=True, keep_vectors=False)
    import pickle

    payloads = []
    if sampler == "smc" and case["mode"] != "fixed":
        live_states = []

        def _cb(st):
            payloads.append(pickle.dumps(st))
            live_states.append(st)  # the dictionary object itself, as a user who keeps checkpoints in memory has it

        opts["checkpoint_callback"] = _cb
        opts["checkpoint_every"] = 1
    if scripted:
        n = int(np.exp(g.uniform(np.log(2), np.log(500))))
        kind = KINDS[g.integers(len(KINDS))]
        spread = float(10 ** g.uniform(-3, 9))
        ll = smcrun.gen_weights(g, n, kind, spread)
        if n >= 3 and g.random() < 0.2:
            # likelihood exactly zero on part of the support: such particles simply have zero weight at every temperature
            ll[g.choice(n, size=int(g.integers(1, n // 2 + 1)), replace=False)] = -np.inf
            counters["runs_with_zero_likelihood_particles"] += 1
            kind += "+neginf"
        dtn = str(g.choice(["float64", "float64", "float32"]))
        sc = smcrun.Scripted(ll, lq=g.normal(0, 1, n), xp_name=xpn, dtype=dtn)
        where = f"scripted kind={kind} spread={spread:.3g} N={n} xp={xpn} {dtn} sampler={sampler}"
        sc.aspire_obj = sc.aspire()
        res = smcrun.run(sc.aspire_obj, n, sampler, dict(opts), identity=True, max_calls=20000, rec=rec)
        sig = f"scripted|{sampler}|{int(np.log10(spread))}|{int(np.log10(n))}"
    else:
        sigma = float(10 ** g.uniform(-4, 0))
        d = int(g.integers(1, 3))
        t = Target([Coord("box", -5.0, 5.0, float(g.uniform(-2, 2)), sigma) for _ in range(d)])
        n = int(g.integers(8, 120))
        if sampler == "blackjax_smc":
            sigma, n = max(sigma, 0.05), min(n, 32)
            t = Target([Coord("box", -5.0, 5.0, float(g.uniform(-2, 2)), sigma) for _ in range(d)])
        seed_a = int(g.integers(1000))
        fk_a = dict(family="tgauss", loc=[0.0] * d, scale=[2.0] * d, lower=[-5.0] * d, upper=[5.0] * d, fixed=True)
        a, _ = make_aspire(t, xpn, seed=seed_a, flow_kwargs=fk_a)
        where = f"moving sigma={sigma:.3g} d={d} N={n} xp={xpn} sampler={sampler}"
        res = smcrun.run(a, n, sampler, dict(opts), identity=False, max_calls=20000, rec=rec)
        sig = f"moving|{sampler}|{int(np.log10(sigma))}|{int(np.log10(n))}"
    inconclusive = []

    def judge(res, rec, opts, where):
        shown = {k: v for k, v in opts.items() if k not in ("rng", "rng_key", "sampler_kwargs", "checkpoint_callback", "checkpoint_every")}
        where += f" opts={shown}"
        counters["runs"] += 1
        counters["adaptive_runs" if opts.get("adaptive", True) else "fixed_runs"] += 1
        counters["runs_with_cap"] += int("max_n_steps" in opts)
        counters["runs_with_floor"] += int("min_step" in opts)
        counters["kernel_calls"] += res.kernel_calls
        betas = [float(to_np(b)) for b in (getattr(res.history, "beta", None) or [])]
        if res.exc is not None:
            if isinstance(res.exc, smcrun.StallDetected) or rec.stall is not None:
                viol.append({"mech": "C06/beta-above-one" if (rec.stall or {}).get("overshoot") else "C06/stall-beta-does-not-increase", "detail": f"{where}: {rec.stall} after betas {betas[-3:]}"})
            elif type(res.exc).__name__ == "WatchdogExceeded":
                if len(betas) >= 2 and (np.diff(betas) <= 0).any():
                    viol.append({"mech": "C06/stall-beta-does-not-increase", "detail": f"{where}: watchdog with repeated beta"})
                else:
                    inconclusive.append(f"watchdog fired without stall witness: {where} betas[-3:]={betas[-3:]}")
            else:
                import traceback

                tb = traceback.extract_tb(res.exc.__traceback__)
                fr = [f for f in tb if "/aspire/" in f.filename]
                loc = f"{fr[-1].filename.split('/aspire/')[-1]}:{fr[-1].name}" if fr else "?"
                viol.append({"mech": f"C06/run-raises-{res.exc_type}", "detail": f"{where}: {res.exc_type} at {loc}: {str(res.exc)[:160]}"})
        else:
            judge_schedule(betas, opts, res, where, viol, counters)
        return shown, betas

    counters["blackjax_runs"] += int(sampler == "blackjax_smc")
    shown, betas = judge(res, rec, opts, where)
    where += f" opts={shown}"
    # further fresh runs on the very same sampler object with newly drawn schedule options: options of an earlier run
    # (ramp / scalar target, caps, floors, fixed / adaptive) must not leak into the next one
    if case["mode"] != "fixed" and sampler in ("smc", "emcee_smc") and res.exc is None and g.random() < 0.35:
        asp = sc.aspire_obj if scripted else a
        for rep in range(int(g.integers(1, 3))):
            opts2, _ = draw_opts(g, sampler)
            if "n_steps" in opts2:
                opts2["n_steps"] = min(opts2["n_steps"], 12)
            rec2 = smcrun.Recorder(abort_on_stall=True, keep_vectors=False)
            res2 = smcrun.run_again(asp, n, dict(opts2), identity=scripted, max_calls=20000, rec=rec2)
            counters["runs_on_a_reused_sampler"] += 1
            judge(res2, rec2, opts2, f"{where} THEN run #{rep + 2} on the same sampler object")
            if res2.exc is not None:
                break
    # the run continued from one of its checkpoints under newly drawn adaptive options: the whole schedule (restored part
    # plus continuation) still has to increase strictly and end exactly at 1
    if case["mode"] != "fixed" and sampler == "smc" and res.exc is None and len(payloads) >= 3 and g.random() < 0.5:
        while True:
            # adaptive options, or a fixed schedule whose grid the checkpointed temperature is (almost surely) not on
            opts3, _ = draw_opts(g, sampler)
            if "max_n_steps" not in opts3:
                break
        if not opts3.get("adaptive", True):
            opts3["n_steps"] = min(int(opts3["n_steps"]), 15)
            counters["runs_continued_under_a_fixed_schedule"] += 1
        k3 = len(payloads) // 2 - 1
        from_live = bool(g.random() < 0.5)
        opts3["resume_from"] = live_states[k3] if from_live else payloads[k3]
        counters["continued_from_live_state_dictionary"] += int(from_live)
        asp3 = sc.aspire() if scripted else make_aspire(t, xpn, seed=seed_a, flow_kwargs=fk_a)[0]
        rec3 = smcrun.Recorder(abort_on_stall=True, keep_vectors=False)
        res3 = smcrun.run(asp3, n, sampler, dict(opts3), identity=scripted, max_calls=20000, rec=rec3)
        counters["runs_continued_under_other_options"] += 1
        w3 = f"{where} THEN continued from a checkpoint with opts={ {k: v for k, v in opts3.items() if k not in ('rng', 'sampler_kwargs', 'resume_from')} }"
        b3 = [float(to_np(b)) for b in (getattr(res3.history, "beta", None) or [])]
        if res3.exc is not None:
            if isinstance(res3.exc, smcrun.StallDetected) or rec3.stall is not None:
                viol.append({"mech": "C06/beta-above-one" if (rec3.stall or {}).get("overshoot") else "C06/stall-beta-does-not-increase", "detail": f"{w3}: {rec3.stall} after betas {b3[-3:]}"})
            elif type(res3.exc).__name__ == "WatchdogExceeded":
                inconclusive.append(f"watchdog fired without stall witness: {w3}")
            else:
                viol.append({"mech": f"C06/run-raises-{res3.exc_type}", "detail": f"{w3}: {res3.exc_type}: {str(res3.exc)[:160]}"})
        else:
            bb = np.asarray(b3)
            if len(bb) == 0 or (np.diff(bb) <= 0).any():
                viol.append({"mech": "C06/beta-not-strictly-increasing", "detail": f"{w3}: betas {b3}"})
            if len(bb) and (bb[-1] != 1.0 or (bb > 1.0).any()):
                viol.append({"mech": "C06/final-beta-not-one", "detail": f"{w3}: betas end {b3[-3:]}"})
            # the population itself has to be taken to temperature 1: the checkpoint was at beta < 1, so the continued run
            # must move particles, and its last move must be at beta = 1
            try:
                b_ck = float((pickle.loads(payloads[k3]).get("meta") or {}).get("beta"))
            except Exception:  # noqa: BLE001
                b_ck = None
            moves = [e[2] for e in rec3.events if e[0] == "mutate"]
            if b_ck is not None and b_ck < 1.0 and (not moves or moves[-1] != 1.0):
                viol.append({"mech": "C06/continued-run-does-not-reach-temperature-one", "detail": f"{w3}: checkpoint at beta {b_ck!r}; temperatures at which the continued run moved particles: {moves}"})
    optsig = "|".join(f"{k}" for k in sorted(shown))
    nontrivial = [f"{sig}|{optsig}|{len(betas)}"] if len(betas) >= 2 else []
    seen = {}
    for v in viol:
        seen.setdefault(v["mech"], dict(v, count=0))["count"] += 1
    return {
        "viol": list(seen.values()),
        "counters": dict(counters),
        "nontrivial": nontrivial,
        "inconclusive": inconclusive,
        "sample": {"where": where, "betas_head": betas[:4], "iterations": len(betas)},
    }
