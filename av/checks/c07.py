"""C07 - adaptive temperature steps meet the ESS target and are maximal.

Monitor: icontract post-condition on the real `SMCSampler.determine_beta`, evaluated (a) on
direct calls with hostile scripted populations / temperatures / tolerances / targets and (b) on
every adaptive step of whole SMC runs (scripted identity-kernel runs and moving-kernel runs).
Oracle: float64 reference ESS curve ESS(beta) of the incremental weights of the population the
search was given; ESS is non-increasing in the step so "largest beta meeting the target" is
well defined.
"""
from __future__ import annotations

import math

import numpy as np

from .. import env, smcrun
from ..harness import make_aspire, to_np
from ..targets import Coord, Target

ID = "C07"
LEVEL = "exploration"
RULE = (
    "direct: seeded weight vectors (gauss/heavy/bimodal/outlier/ties/peaked; spreads 1e-3..1e7; -inf members; N 2..2000) x current beta in [0,1) x "
    "tolerance 1e-8..1e-2 x scalar/ramped target x min-step floor, through the real determine_beta; runs: every adaptive step of scripted and "
    "moving-kernel SMC runs. non-trivial = step whose ESS curve crosses the target strictly inside (beta_prev, 1) (interior crossing) ; "
    "distinct = distinct (kind, N, spread decade, beta_prev decile, tol decade, target kind, outcome class, namespace, dtype)"
)
ASSUMPTIONS = [
    "the target in force may be read at the previous or at the new temperature when it is a ramp (either accepted)",
    "'within the stated tolerance': ESS(beta_new - tol) >= target and ESS(beta_new + tol) < target (or beta_new == 1); the floor-forced step waives the first",
    "slack on ESS comparisons = eps(dtype)*(64 + 64 sqrt(N) + 16 max|log w|) relative",
]
REQUIRED_COUNTERS = ["post_evals", "interior_crossings", "full_steps", "floor_forced"]

KINDS = ["gauss", "heavy", "bimodal", "outlier", "ties", "peaked"]


def cases(tier, seed):
    nb = {"quick": 40, "thorough": 1600}[tier]
    per = {"quick": 60, "thorough": 150}[tier]
    out = []
    k = 0
    for b in range(nb):
        for xp in ("numpy", "torch", "jax"):
            if xp != "numpy" and b % 8 != 0:
                continue
            for dt in ("float64", "float32"):
                out.append({"kind": "direct", "xp": xp, "dtype": dt, "seed": [seed, 7, k], "n": per if xp == "numpy" else per // 4})
                k += 1
    nr = {"quick": 40, "thorough": 1200}[tier]
    for b in range(nr):
        out.append({"kind": "run", "seed": [seed, 77, k], "xp": ["numpy", "numpy", "torch", "jax"][b % 4] if b % 5 == 0 else "numpy"})
        k += 1
    return out


# ------------------------------------------------------------------ oracle

STATE = {"viol": [], "evals": 0, "counters": None, "nontrivial": None, "tag": ""}


def tau_of(target, rate, beta):
    if isinstance(target, (tuple, list)):
        return float(target[0] + (target[1] - target[0]) * beta**rate)
    return float(target)


def judge(rec):
    """rec: dict with s, beta_prev, beta_new, min_step_in/out, tol, target, target_rate, adaptive_min_step, dtype."""
    c = STATE["counters"]
    s = np.asarray(rec["s"], dtype=float)
    n = len(s)
    bp, bn, tol = rec["beta_prev"], rec["beta_new"], rec["tol"]
    # tolerances tighter than the reference curve can resolve are judged as 1e-9 (only relaxes the verdict; what such calls
    # decide is that the search returns at all, see direct_case)
    tol = max(tol, 1e-9)
    eps = float(np.finfo(np.float32 if "32" in rec.get("dtype", "float64") else np.float64).eps)
    fin = s[np.isfinite(s)]
    smax = float(np.max(np.abs(fin))) if len(fin) else 0.0

    def frac(beta):
        return smcrun.ref_ess_curve(s, beta - bp) / n

    def slack(beta):
        return eps * (64 + 64 * math.sqrt(n) + 16 * abs(beta - bp) * smax)

    where = f"{STATE['tag']} N={n} beta_prev={bp!r} beta_new={bn!r} tol={tol} target={rec['target']} rate={rec['target_rate']} min_step_in={rec['min_step_in']} dtype={rec.get('dtype')}"
    if not (bp < bn <= 1.0):
        if bn <= bp:
            STATE["viol"].append({"mech": "C07/no-progress", "detail": where})
        else:
            STATE["viol"].append({"mech": "C07/beta-out-of-range", "detail": where})
        return
    ms = rec["min_step_out"] if rec.get("adaptive_min_step") else rec["min_step_in"]
    ms = ms or 0.0
    floor = min(1.0, bp + ms)
    floor_forced = ms > 0 and abs(bn - floor) <= 4 * np.finfo(float).eps * max(1.0, abs(floor))
    taus = sorted({tau_of(rec["target"], rec["target_rate"], bp), tau_of(rec["target"], rec["target_rate"], bn)})
    ok_any = False
    why = []
    for tau in taus:
        hi = min(1.0, bn + tol)
        maximal = bn >= 1.0 or frac(hi) < tau * (1 + slack(hi)) + 1e-300
        lo = max(bp, bn - tol)
        # bn - tol <= bp: beta_new is within the tolerance of beta_prev, the infimum of the feasible set
        # (covers populations for which no positive step meets the target, e.g. many zero-weight members)
        met = floor_forced or (bn - tol <= bp) or frac(lo) >= tau * (1 - slack(lo))
        if maximal and met:
            ok_any = True
            break
        why.append(f"tau={tau:.6g}: ESS(beta_new-tol)/N={frac(lo):.8g} ESS(beta_new)/N={frac(bn):.8g} ESS(beta_new+tol)/N={frac(hi):.8g} floor_forced={floor_forced}")
    tau0 = taus[0]
    f1 = frac(1.0)
    outcome = "full" if bn >= 1.0 else ("floor" if floor_forced else "interior")
    if outcome == "full":
        c["full_steps"] += 1
    elif outcome == "floor":
        c["floor_forced"] += 1
    else:
        c["interior_crossings"] += 1
    strict = frac(bn) >= tau0 * (1 - slack(bn))
    if not strict and not floor_forced:
        c["met_only_within_tolerance"] += 1
    if not ok_any:
        mech = "C07/step-not-maximal" if all("floor_forced" in w and _met(w) for w in why) else "C07/target-not-met"
        STATE["viol"].append({"mech": mech, "detail": where + " :: " + " | ".join(why)})
    if outcome == "interior" or (outcome == "floor" and f1 < tau0):
        sig = (
            f"{rec.get('gen','run')}|{n}|{int(np.floor(np.log10(max(smax,1e-12))))}|{int(bp*10)}|{int(np.floor(np.log10(tol)))}|"
            f"{'ramp' if isinstance(rec['target'], (tuple, list)) else 'scalar'}|{outcome}|{STATE['tag'].split(' ')[0]}|{rec.get('dtype')}"
        )
        STATE["nontrivial"].add(sig)


def _met(w):
    # helper for mechanism naming: the lower side was satisfied in this reading
    try:
        tau = float(w.split("tau=")[1].split(":")[0])
        lo = float(w.split("ESS(beta_new-tol)/N=")[1].split(" ")[0])
        return lo >= tau * (1 - 1e-6)
    except Exception:  # noqa: BLE001
        return False


# ---- icontract post-condition on the real method (named function; argument names match)


def post_determine_beta(self, samples, beta, min_step, beta_tolerance, result):
    if not getattr(self, "adaptive", False):
        return True
    STATE["evals"] += 1
    new_beta, new_min = result
    rec = {
        "s": smcrun._pop_vec(samples),
        "beta_prev": float(beta),
        "beta_new": float(to_np(new_beta)),
        "min_step_in": float(min_step) if min_step is not None else None,
        "min_step_out": float(new_min) if new_min is not None else None,
        # in whole runs the tolerance "stated" is the documented default of the sampling call (the sampler front-ends take no
        # tolerance option), whatever value reaches the search; in direct calls it is the argument
        "tol": min(float(beta_tolerance), 1e-6) if STATE.get("asked") else float(beta_tolerance),
        # the target "in force" is what the caller of the run asked for (an option lost on the way to the sampler must show)
        "target": STATE["asked"][0] if STATE.get("asked") else getattr(self, "_target_efficiency", None),
        "target_rate": STATE["asked"][1] if STATE.get("asked") else getattr(self, "target_efficiency_rate", 1.0),
        "adaptive_min_step": bool(getattr(self, "adaptive_min_step", False)),
        "dtype": str(to_np(samples.log_likelihood).dtype),
        "gen": STATE.get("gen", "run"),
    }
    judge(rec)
    return True


class PostBroken(AssertionError):
    pass


def install_contract():
    import icontract

    from aspire.samplers.smc.base import SMCSampler

    smcrun.install()
    if getattr(SMCSampler.determine_beta, "_c07", False):
        return
    w = icontract.ensure(post_determine_beta, error=PostBroken)(SMCSampler.determine_beta)
    w._c07 = True
    SMCSampler.determine_beta = w


# ------------------------------------------------------------------ workloads


class SearchDoesNotReturn(RuntimeError):
    pass


def direct_case(case):
    from aspire.samplers.smc.minipcn import MiniPCNSMC
    from aspire.samples import SMCSamples

    xp = env.xp_of(case["xp"])
    dt = case["dtype"]
    g = np.random.default_rng(case["seed"])
    STATE["tag"] = f"direct/{case['xp']}"
    STATE["asked"] = None
    for _ in range(case["n"]):
        n = int(np.exp(g.uniform(np.log(2), np.log(2000))))
        kind = KINDS[g.integers(len(KINDS))]
        spread = 10 ** g.uniform(-3, 7)
        s = smcrun.gen_weights(g, n, kind, spread)
        if g.random() < 0.15 and n > 3:
            m = g.random(n) < g.choice([0.1, 0.6])
            m[g.integers(n)] = False
            s = np.where(m, -np.inf, s)
        lq = g.normal(0, 2, n)
        lp = g.normal(0, 1, n)
        ll = s - lp + lq
        bp = float(g.choice([0.0, 0.0, g.uniform(0, 1), g.uniform(0.9, 1), 10 ** g.uniform(-8, -1)]))
        bp = min(bp, 1 - 1e-9)
        tol = float(10 ** g.uniform(-8, -2))
        tight = bool(g.random() < 0.15)
        if tight:
            # tight but valid (well above the spacing of floating-point numbers below 1), with the search starting near 1
            tol = float(10 ** g.uniform(-15, -12))
            bp = float(g.choice([bp, g.uniform(0.85, 0.999), g.uniform(0.5, 0.999)]))
            STATE["counters"]["searches_with_tight_tolerance"] += 1
        if g.random() < 0.3:
            t0 = float(g.uniform(0.05, 0.6))
            target = (t0, float(g.uniform(t0 + 0.05, 0.98)))
        else:
            target = float(g.uniform(0.02, 0.98))
        rate = float(g.choice([1.0, 0.5, 2.0]))
        ms_mode = g.integers(0, 4)  # 0,1: none ; 2: user floor ; 3: adaptive floor from max_n_steps
        min_step = 0.0
        if ms_mode == 2:
            min_step = float(10 ** g.uniform(-3, np.log10(0.7)))
        elif ms_mode == 3:
            min_step = 1.0 / int(g.integers(1, 50))
        pop = SMCSamples(
            x=xp.asarray(np.arange(n, dtype=float)[:, None]),
            log_likelihood=xp.asarray(ll.astype(dt)),
            log_prior=xp.asarray(lp.astype(dt)),
            log_q=xp.asarray(lq.astype(dt)),
            beta=bp,
            xp=xp,
            dtype=dt,
        )
        sm = MiniPCNSMC(log_likelihood=None, log_prior=None, dims=1, prior_flow=None, xp=xp, dtype=dt)
        sm.adaptive = True
        sm.adaptive_min_step = ms_mode == 3
        sm.target_efficiency = target
        sm.target_efficiency_rate = rate
        STATE["gen"] = kind
        # bounded progress of the search itself: bisection to 1e-15 needs ~50 evaluations; thousands mean it does not return
        budget = {"n": 0}
        for name in ("log_weights", "unnormalized_log_weights"):
            orig_m = getattr(pop, name)

            def counted(beta, _orig=orig_m):
                budget["n"] += 1
                if budget["n"] > 3000:
                    raise SearchDoesNotReturn()
                return _orig(beta)

            setattr(pop, name, counted)
        try:
            sm.determine_beta(pop, bp, float("nan"), min_step, beta_tolerance=tol)
        except SearchDoesNotReturn:
            STATE["viol"].append({"mech": "C07/temperature-search-does-not-return", "detail": f"direct/{case['xp']} N={n} kind={kind} beta_prev={bp!r} tol={tol!r} target={target}: more than 3000 weight evaluations inside one search"})
        except ZeroDivisionError as exc:
            STATE["viol"].append(
                {"mech": "C07/search-raises-ZeroDivisionError-with-step-cap", "detail": f"direct N={n} beta_prev={bp} min_step={min_step} adaptive floor: {exc}"}
            )
        except smcrun.StallDetected:
            pass


def run_case_whole(case):
    g = np.random.default_rng(case["seed"])
    xpn = case["xp"]
    mode = g.choice(["scripted", "moving"])
    opts = {"adaptive": True, "rng": np.random.default_rng(int(g.integers(2**31)))}
    if g.random() < 0.4:
        t0 = float(g.uniform(0.1, 0.5))
        opts["target_efficiency"] = (t0, float(g.uniform(t0 + 0.1, 0.95)))
        opts["target_efficiency_rate"] = float(g.choice([1.0, 2.0, 3.0, 0.5]))
    else:
        opts["target_efficiency"] = float(g.uniform(0.1, 0.9))
    if g.random() < 0.3:
        opts["min_step"] = float(10 ** g.uniform(-3, -0.3))
    if g.random() < 0.35:
        # an iteration count given together with the adaptive schedule (it only has a meaning for fixed schedules): the steps
        # must still be the largest ones that meet the target
        opts["n_steps"] = int(g.integers(2, 40))
        STATE["counters"]["adaptive_runs_given_an_iteration_count"] += 1
    STATE["gen"] = "run"
    sampler = str(g.choice(["smc", "smc", "emcee_smc"]))
    if sampler == "emcee_smc":
        opts.pop("rng", None)
        opts.pop("min_step", None)
    STATE["asked"] = (opts["target_efficiency"], opts.get("target_efficiency_rate", 1.0))
    rec = smcrun.Recorder(abort_on_stall=True, keep_vectors=False)
    import pickle

    payloads = []
    opts["checkpoint_callback"] = lambda st: payloads.append(pickle.dumps(st))
    opts["checkpoint_every"] = 1

    def other_target(o):
        """the run is continued from a checkpoint under another target (scalar <-> ramp, other values, other rate)"""
        o = {k: v for k, v in o.items() if k not in ("checkpoint_callback", "checkpoint_every", "target_efficiency", "target_efficiency_rate")}
        if g.random() < 0.5:
            t0 = float(g.uniform(0.1, 0.5))
            o["target_efficiency"] = (t0, float(g.uniform(t0 + 0.1, 0.95)))
            o["target_efficiency_rate"] = float(g.choice([1.0, 2.0, 0.5]))
        else:
            o["target_efficiency"] = float(g.uniform(0.1, 0.9))
        if sampler == "smc":
            o["rng"] = np.random.default_rng(int(g.integers(2**31)))
        STATE["asked"] = (o["target_efficiency"], o.get("target_efficiency_rate", 1.0))
        o["resume_from"] = payloads[max(0, len(payloads) // 2 - 1)]
        return o

    if mode == "scripted":
        n = int(g.integers(2, 400))
        kind = KINDS[g.integers(len(KINDS))]
        spread = 10 ** g.uniform(-1, 5)
        ll = smcrun.gen_weights(g, n, kind, spread)
        sc = smcrun.Scripted(ll, lq=g.normal(0, 1, n), xp_name=xpn, dtype=str(g.choice(["float64", "float32"])))
        STATE["tag"] = f"run-scripted/{xpn} kind={kind} spread={spread:.3g}"
        opts["sampler_kwargs"] = {"n_steps": 1} if sampler == "smc" else {"nsteps": 1, "progress": False}
        STATE["tag"] += f" sampler={sampler}"
        smcrun.run(sc.aspire(), n, sampler, opts, identity=True, max_calls=3000, rec=rec)
        if len(payloads) >= 3:
            STATE["tag"] += " [continued from a checkpoint under another target]"
            STATE["counters"]["runs_continued_under_another_target"] += 1
            smcrun.run(sc.aspire(), n, sampler, other_target(opts), identity=True, max_calls=3000, rec=smcrun.Recorder(abort_on_stall=True, keep_vectors=False))
    else:
        sig = float(10 ** g.uniform(-2, 0))
        t = Target([Coord("box", -5.0, 5.0, float(g.uniform(-2, 2)), sig) for _ in range(int(g.integers(1, 3)))])
        a, _ = make_aspire(t, xpn, seed=int(g.integers(1000)))
        STATE["tag"] = f"run-moving/{xpn} sigma={sig:.3g}"
        opts["sampler_kwargs"] = {"n_steps": 2} if sampler == "smc" else {"nsteps": 2, "progress": False}
        STATE["tag"] += f" sampler={sampler}"
        n = int(g.integers(20, 200))
        seed_a = int(g.integers(1000))
        smcrun.run(a, n, sampler, opts, identity=False, max_calls=3000, rec=rec)
        if len(payloads) >= 3:
            STATE["tag"] += " [continued from a checkpoint under another target]"
            STATE["counters"]["runs_continued_under_another_target"] += 1
            a2, _ = make_aspire(t, xpn, seed=seed_a)
            smcrun.run(a2, n, sampler, other_target(opts), identity=False, max_calls=3000, rec=smcrun.Recorder(abort_on_stall=True, keep_vectors=False))


def run_case(case):
    from collections import Counter

    install_contract()
    STATE["viol"] = []
    STATE["evals"] = 0
    STATE["counters"] = Counter({k: 0 for k in REQUIRED_COUNTERS})
    STATE["nontrivial"] = set()
    if case["kind"] == "direct":
        direct_case(case)
    else:
        run_case_whole(case)
    c = STATE["counters"]
    c["post_evals"] = STATE["evals"]
    seen = {}
    for v in STATE["viol"]:
        seen.setdefault(v["mech"], dict(v, count=0))["count"] += 1
    sample = None
    if STATE["nontrivial"]:
        sample = {"signature": sorted(STATE["nontrivial"])[0]}
    return {"viol": list(seen.values()), "counters": dict(c), "nontrivial": sorted(STATE["nontrivial"]), "sample": sample}
