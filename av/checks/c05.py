"""C05 - kernels are handed the correct (tempered) target in the preconditioned space.

Kernel tap: the stand-in kernels report every (z, value) they obtain from the function aspire
hands them; each pair is judged *at call time* (the preconditioning map is refitted at every
mutation) against (1-b) log q(x) + b (log L(x) + log pi(x)) + log|det dx/dz|, with x the image
of z under the transform's own inverse map and the determinant obtained by differentiating that
map as a black box (central differences) - never from the Jacobian the transform reports.
"""
from __future__ import annotations

import math

import numpy as np

from .. import env, recorded, smcrun
from ..harness import Probe, to_np
from ..targets import Target

ID = "C05"
LEVEL = "exploration"
RULE = (
    "runs = analytic-family targets x {MiniPCNSMC, EmceeSMC, BlackJAXSMC (function handed to the kernel evaluated on concrete points), MiniPCN, Emcee} x "
    "preconditioning {none, default, +periodic, +logit, +probit, +affine, combinations, flow (zuko/flowjax, d<=2)} x namespaces, float64; every kernel "
    "evaluation is judged, plus adversarial z (far tails, outside bounds, NaN-likelihood region). non-trivial = configuration with a non-identity map "
    "or beta<1 and >=1 finite and >=1 -inf evaluation judged; distinct = distinct (sampler, namespace, transform signature, beta decile)"
)
ASSUMPTIONS = [
    "float64 configurations (finite-difference oracle); tolerance 2e-4*(1+|ref|)",
    "points whose +-h perturbations straddle a periodic seam are skipped and counted",
    "q is the proposal object's own log_prob; L and pi are the harness's float64 reference functions",
    "BlackJAX: the log-density function handed to blackjax.rmh / nuts / hmc is captured and evaluated on concrete points after each mutation (nuts / hmc are served by gradient-free stand-in kernels: the library's own code of those branches runs, the real integrators do not)",
]
REQUIRED_COUNTERS = ["tapped_evaluations", "finite_judged", "neginf_judged", "adversarial_judged", "nan_region_judged"]


def cases(tier, seed):
    out = []
    n = {"quick": 90, "thorough": 3000}[tier]
    for k in range(n):
        out.append({"kind": "analytic", "seed": [seed, 5, k]})
    nf = {"quick": 4, "thorough": 60}[tier]
    for k in range(nf):
        out.append({"kind": "flowprec", "backend": ["zuko", "flowjax"][k % 2], "seed": [seed, 55, k]})
    return out


class NanProbe(Probe):
    """User likelihood that is undefined (NaN) in a region of the prior support."""

    def __init__(self, target, nan_above=None):
        super().__init__(target)
        self.nan_above = nan_above

    def log_likelihood(self, samples):
        ll = super().log_likelihood(samples)
        if self.nan_above is None or not getattr(self, "nan_active", False):
            return ll
        from array_api_compat import array_namespace

        xp = array_namespace(samples.x)
        bad = samples.x[:, 0] > self.nan_above
        return xp.where(bad, xp.asarray(math.nan, dtype=ll.dtype), ll)


class Judge:
    def __init__(self, aspire, target, probe, counters, viol, where, smc=True):
        self.a = aspire
        self.t = target
        self.probe = probe
        self.c = counters
        self.viol = viol
        self.where = where
        self.smc = smc
        self.betas = set()
        self.finite = 0
        self.neginf = 0

    def ref(self, z_np, beta, sampler):
        """reference value for rows of z (float64 numpy)."""
        tr = sampler.preconditioning_transform
        txp = tr.xp

        def inv(zz):
            out = tr.inverse(txp.asarray(zz))
            return np.asarray(to_np(out[0]), dtype=float)

        x = inv(z_np)
        n, d = z_np.shape
        full = type(tr).__name__ == "FlowPreconditioningTransform"
        ok = np.ones(n, dtype=bool)
        if not full:
            h = 1e-6 * (1 + np.abs(z_np))
            xp_ = inv(z_np + h)
            xm_ = inv(z_np - h)
            deriv = (xp_ - xm_) / (2 * h)
            # the difference must carry >= 6 significant digits, else the finite difference is noise (saturated map)
            ok &= np.all(np.abs(xp_ - xm_) >= 1e6 * np.finfo(float).eps * np.maximum(np.abs(xp_), np.abs(xm_)), axis=1)
            # periodic seam: the wrapped image jumps by a period
            for j, name in enumerate(self.t.parameters):
                if name in (self.t.periodic_parameters or []):
                    w = self.t.hi[j] - self.t.lo[j]
                    ok &= np.abs(xp_[:, j] - xm_[:, j]) < 0.5 * w
            with np.errstate(divide="ignore", invalid="ignore"):
                logdet = np.sum(np.log(np.abs(deriv)), axis=1)
        else:
            h = 1e-5
            J = np.empty((n, d, d))
            for j in range(d):
                e = np.zeros(d)
                e[j] = h
                J[:, :, j] = (inv(z_np + e) - inv(z_np - e)) / (2 * h)
            logdet = np.linalg.slogdet(J)[1]
            ok &= np.isfinite(logdet)
        lp = self.t.ref_log_prior(x)
        ll = self.t.ref_log_like(x)
        if getattr(self.probe, "nan_above", None) is not None and getattr(self.probe, "nan_active", False):
            ll = np.where(x[:, 0] > self.probe.nan_above, np.nan, ll)
        if self.smc:
            lq = np.asarray(to_np(self.a.flow.log_prob(self.a.flow.xp.asarray(x))), dtype=float)
            with np.errstate(invalid="ignore"):
                val = (1 - beta) * lq + beta * (ll + lp) + logdet
            val = np.where(np.isnan(val), -np.inf, val)
        else:
            with np.errstate(invalid="ignore"):
                val = ll + lp + logdet
        val = np.where(np.isneginf(lp), -np.inf, val)
        return val, ok, x, logdet

    def judge(self, z, value, beta, sampler, tag="tap"):
        z_np = np.asarray(to_np(z), dtype=float)
        if z_np.ndim == 1:
            z_np = z_np[None, :]
        got = np.asarray(to_np(value), dtype=float).reshape(-1)
        ref, ok, x, logdet = self.ref(z_np, beta, sampler)
        self.c["tapped_evaluations" if tag == "tap" else "adversarial_judged"] += len(got)
        if beta is not None:
            self.betas.add(int(min(beta, 0.999) * 10))
        for i in range(len(got)):
            if not ok[i]:
                self.c["seam_or_saturated_skipped"] += 1
                continue
            if np.isnan(ref[i]):
                # only possible for plain MCMC (NaN may propagate there)
                self.c["mcmc_nan_recorded"] += 1
                continue
            if np.isneginf(ref[i]):
                self.c["neginf_judged"] += 1
                self.neginf += 1
                if getattr(self.probe, "nan_above", None) is not None and getattr(self.probe, "nan_active", False) and x[i, 0] > self.probe.nan_above and np.isfinite(self.t.ref_log_prior(x[i : i + 1])[0]):
                    self.c["nan_region_judged"] += 1
                    if not np.isneginf(got[i]):
                        self.viol.append({"mech": "C05/nan-target-propagated-to-kernel", "detail": f"{self.where}: z={z_np[i].tolist()} x={x[i].tolist()} beta={beta}: kernel got {got[i]!r} for an undefined tempered value"})
                elif not np.isneginf(got[i]):
                    self.viol.append({"mech": "C05/finite-density-outside-prior", "detail": f"{self.where}: z={z_np[i].tolist()} x={x[i].tolist()} beta={beta}: kernel got {got[i]!r}, prior is zero there"})
                continue
            self.c["finite_judged"] += 1
            self.finite += 1
            tol = 2e-4 * (1 + abs(ref[i]))
            if not abs(got[i] - ref[i]) <= tol:
                self.viol.append(
                    {
                        "mech": "C05/kernel-target-differs-from-tempered-formula",
                        "detail": f"{self.where} [{tag}]: z={z_np[i].tolist()} x={x[i].tolist()} beta={beta}: kernel got {got[i]!r}, reference {ref[i]!r} (log|det dx/dz|={logdet[i]!r})",
                    }
                )


def run_analytic(case, counters, viol, nontrivial):
    import emcee
    import minipcn

    g = np.random.default_rng(case["seed"])
    from ..targets import family

    t = family(g, dims=int(g.integers(1, 4)))
    sampler = str(g.choice(["smc", "smc", "emcee_smc", "blackjax_smc", "minipcn", "emcee"]))
    xpn = "jax" if sampler == "blackjax_smc" else str(g.choice(["numpy", "numpy", "torch", "jax"]))
    cfg = recorded.default_cfg(g, target=t.describe(), sampler=sampler, xp=xpn, dtype="float64", n=int(g.integers(12, 40)))
    cfg["precond"] = recorded.random_precond(g, t)
    if sampler == "blackjax_smc":
        cfg["n"] = int(g.integers(8, 20))
    nan_above = None
    if sampler == "smc" and g.random() < 0.2:
        # a schedule truncated by the step cap, followed by the final enlargement: the enlarged population is at beta = 1
        nst = int(g.integers(3, 7))
        cfg["opts"] = {"adaptive": False, "n_steps": nst, "max_n_steps": int(g.integers(1, nst)), "n_final_samples": cfg["n"] + int(g.integers(2, 12))}
        capped_final = True
    else:
        capped_final = False
    if sampler in ("smc", "emcee_smc") and g.random() < 0.3:
        c0 = t.coords[0]
        nan_above = c0.lo + 0.8 * (c0.hi - c0.lo)
    probe = NanProbe(t, nan_above)
    if g.random() < 0.3 and not capped_final:
        cfg["opts"] = {"adaptive": False, "n_steps": int(g.integers(2, 6))}
    smc = sampler.endswith("smc")
    if not smc:
        cfg["opts"] = {}
    tsig = f"{cfg['precond']['preconditioning']}{sorted(cfg['precond']['kwargs'].items())}|per={bool(t.periodic_parameters)}"
    where = f"sampler={sampler} xp={xpn} opts={cfg.get('opts')} precond={cfg['precond']} target={t.describe()['coords']} nan_above={nan_above}"
    t_, a, probe = recorded.build(cfg, probe=probe)
    J = Judge(a, t, probe, counters, viol, where, smc=smc)
    rec = smcrun.Recorder(abort_on_stall=True, keep_vectors=False)

    def tap(z, value, stub):
        s = a.sampler
        if s is None:
            return
        if getattr(stub, "last_input_mutated", False):
            viol.append({"mech": "C05/kernel-input-array-modified-in-place", "detail": f"{where}: the array the kernel passed to its target was overwritten by the call"})
        beta = rec.cur_beta if smc else None
        if smc and beta is None:
            return
        J.judge(z, value, beta, s)

    kw = recorded.sample_kwargs(cfg)
    if sampler == "minipcn":
        kw = {"n_steps": 4, "rng": np.random.default_rng(cfg["rng_seed"]), "preconditioning": cfg["precond"]["preconditioning"]}
        if cfg["precond"]["kwargs"]:
            kw["preconditioning_kwargs"] = dict(cfg["precond"]["kwargs"])
    elif sampler == "emcee":
        np.random.seed(cfg["rng_seed"] % 2**32)
        kw = {"nsteps": 4, "preconditioning": cfg["precond"]["preconditioning"]}
        if cfg["precond"]["kwargs"]:
            kw["preconditioning_kwargs"] = dict(cfg["precond"]["kwargs"])
    if sampler == "blackjax_smc":
        import blackjax

        captured = []
        orig_kernels = {name: getattr(blackjax, name) for name in ("rmh", "nuts", "hmc")}

        def capturing(name):
            def kernel(logdensity_fn, *aa, **kk):
                captured.append(logdensity_fn)
                counters[f"blackjax_{name}_kernels_built"] += 1
                return orig_kernels[name](logdensity_fn, *aa, **kk)

            return kernel

        for name in orig_kernels:
            setattr(blackjax, name, capturing(name))
        from aspire.samplers.smc.blackjax import BlackJAXSMC

        smcrun.install()
        inner = BlackJAXSMC.mutate

        def mutate(self, particles, beta, *aa, **kk):
            out = inner(self, particles, beta, *aa, **kk)
            # evaluate the function that was handed to the kernel on concrete points (transform state of this mutation)
            fn = captured[-1]
            import jax.numpy as jnp

            zs = np.asarray(to_np(self.preconditioning_transform.forward(out.x)[0]), dtype=float)
            pts = np.concatenate([zs[:6], zs[:3] + g.normal(0, 3.0, zs[:3].shape), zs[:2] * 0 + 50.0])
            vals = np.array([float(fn(jnp.asarray(p))) for p in pts])
            J.judge(pts, vals, float(beta), self)
            return out

        BlackJAXSMC.mutate = mutate
    minipcn.TAPS.append(tap)
    emcee.TAPS.append(tap)
    try:
        res = smcrun.run(a, cfg["n"], sampler, kw, identity=False, max_calls=3000, rec=rec)
    finally:
        minipcn.TAPS.remove(tap)
        emcee.TAPS.remove(tap)
        if sampler == "blackjax_smc":
            for name, fn in orig_kernels.items():
                setattr(blackjax, name, fn)
            BlackJAXSMC.mutate = inner
    if res.exc is not None:
        raise res.exc
    # adversarial direct calls with the final transform state
    s = a.sampler
    d = t.dims
    txp = s.preconditioning_transform.xp
    zs = np.concatenate(
        [
            g.normal(0, 1, (4, d)),
            g.normal(0, 30, (4, d)),
            np.full((1, d), 200.0),
            np.full((1, d), -200.0),
            np.array([[t.hi[j] + 1.0 for j in range(d)]]),
            np.array([[t.lo[j] - 1.0 for j in range(d)]]),
        ]
    )
    if nan_above is not None:
        # points inside the prior support where the user's likelihood is undefined (NaN): only for these direct calls
        probe.nan_active = True
        c0 = t.coords[0]
        xa = np.column_stack([g.uniform(c.lo + 0.05 * (c.hi - c.lo), c.hi - 0.05 * (c.hi - c.lo), 6) for c in t.coords])
        xa[:, 0] = g.uniform(nan_above + 0.02 * (c0.hi - c0.lo), c0.hi - 0.02 * (c0.hi - c0.lo), 6)
        za = np.asarray(to_np(s.preconditioning_transform.forward(txp.asarray(xa))[0]), dtype=float)
        zs = np.concatenate([zs, za])
    for beta in ([float(g.choice([1e-6, 0.3, 1.0]))] if smc else [None]):
        if smc:
            vals = s.log_prob(env.xp_of(xpn).asarray(zs), beta)
        else:
            vals = s.log_prob(zs)
        J.judge(zs, vals, beta, s, tag="adversarial")
    nontriv = (cfg["precond"]["preconditioning"] != "none" and (cfg["precond"]["kwargs"] or t.periodic_parameters)) or (smc and any(b < 9 for b in J.betas))
    if nontriv and J.finite and J.neginf:
        for b in sorted(J.betas) or [10]:
            nontrivial.add(f"{sampler}|{xpn}|{tsig}|{b}")
    return {"where": where, "finite": J.finite, "neginf": J.neginf}


def run_flowprec(case, counters, viol, nontrivial):
    """Flow-based preconditioning with a real (tiny) flow as proposal and as preconditioner."""
    import minipcn

    from aspire import Aspire
    from aspire.samples import Samples

    g = np.random.default_rng(case["seed"])
    backend = case["backend"]
    from ..targets import Coord

    d = int(g.integers(1, 3))
    t = Target([Coord("box", -5.0, 5.0, float(g.uniform(-1, 1)), float(g.uniform(0.6, 1.2))) for _ in range(d)])
    xpn = "torch" if backend == "zuko" else "jax"
    xp = env.xp_of(xpn)
    probe = Probe(t)
    kw = dict(
        log_likelihood=probe.log_likelihood,
        log_prior=probe.log_prior,
        dims=d,
        parameters=list(t.parameters),
        prior_bounds=t.prior_bounds,
        flow_backend=backend,
        xp=xp,
        dtype="float64",
        bounded_to_unbounded=bool(g.random() < 0.5),
    )
    if backend == "zuko":
        kw.update(hidden_features=[8, 8], transforms=2)
        fit_kw = dict(n_epochs=3, batch_size=64)
    else:
        import jax

        kw.update(key=jax.random.key(int(g.integers(1000))), flow_layers=2, nn_width=8)
        fit_kw = dict(max_epochs=3, batch_size=64, show_progress=False)
    a = Aspire(**kw)
    xtrain = np.clip(np.column_stack([g.normal(c.mu, 1.5 * c.s, 300) for c in t.coords]), -4.9, 4.9)
    a.fit(Samples(xp.asarray(xtrain), xp=xp, parameters=list(t.parameters)), **fit_kw)
    where = f"flow-preconditioning backend={backend} d={d} b2u={kw['bounded_to_unbounded']}"
    J = Judge(a, t, probe, counters, viol, where, smc=True)
    rec = smcrun.Recorder(abort_on_stall=True, keep_vectors=False)

    def tap(z, value, stub):
        if a.sampler is not None and rec.cur_beta is not None:
            J.judge(z, value, rec.cur_beta, a.sampler)

    minipcn.TAPS.append(tap)
    try:
        res = smcrun.run(
            a,
            32,
            "smc",
            dict(
                rng=np.random.default_rng(int(g.integers(2**31))),
                sampler_kwargs={"n_steps": 2},
                preconditioning="flow",
                preconditioning_kwargs={"fit_kwargs": fit_kw},
                adaptive=False,
                n_steps=2,
            ),
            identity=False,
            max_calls=200,
            rec=rec,
        )
    finally:
        minipcn.TAPS.remove(tap)
    if res.exc is not None:
        raise res.exc
    if J.finite:
        nontrivial.add(f"flowprec|{backend}|{d}")
    return {"where": where, "finite": J.finite, "neginf": J.neginf}


def run_case(case):
    from collections import Counter

    counters = Counter({k: 0 for k in REQUIRED_COUNTERS})
    viol = []
    nontrivial = set()
    if case["kind"] == "analytic":
        sample = run_analytic(case, counters, viol, nontrivial)
    else:
        sample = run_flowprec(case, counters, viol, nontrivial)
    seen = {}
    for v in viol:
        seen.setdefault(v["mech"], dict(v, count=0))["count"] += 1
    return {"viol": list(seen.values()), "counters": dict(counters), "nontrivial": sorted(nontrivial), "sample": sample}
