"""C15 - array-namespace and dtype conversions preserve values and precision.

Part A (exhaustive grid): every sample class x ordered namespace pair x dtype spelling x
optional-field subset through to_namespace / to_numpy / from_samples.
Part B: every dtype spelling accepted by resolve_dtype / convert_dtype, for every target namespace.
Part C: dtype watch on every population observed in real sampler runs (initial, each history
entry, checkpoint payload, restored, returned) and the sample_posterior(xp=...) option.
Part D: zuko / flowjax proposal outputs consumed in numpy, torch and jax sample sets
(directly and inside an SMC run).
"""
from __future__ import annotations

import inspect
import itertools

import numpy as np

from .. import env
from ..harness import Probe, make_aspire, ns_name, to_np, width_of
from ..targets import Coord, Target

ID = "C15"
LEVEL = "exploration"
RULE = (
    "grid (exhaustive in both tiers): 3 sample classes x 3x3 ordered namespace pairs x 5 dtype spellings (default, 'float32', 'float64', "
    "native float32/float64 object) x 2^4 field subsets (log_likelihood, log_prior, log_q, parameter names) x {to_namespace, from_samples, to_numpy}; "
    "dtype-helper grid: every spelling x 3 target namespaces; sampler runs: namespace x requested dtype x sampler class; real-flow consumption: "
    "{zuko, flowjax} x 3 sample namespaces. non-trivial = conversion that changes namespace or carries a non-default width; distinct = grid cell."
)
ASSUMPTIONS = [
    "only the fields named in the statement are judged (SMC-only attributes are recorded)",
    "float width is read from the dtype name of the array actually returned",
    "jax runs with jax_enable_x64=True (as the repository's conftest)",
    "BlackJAX with float32 under x64 is excluded (xfail in the repository's own tests: known upstream dtype promotion in the kernel)",
]
REQUIRED_COUNTERS = ["grid_cells_judged", "carried_evidence_conversions", "helper_cells_judged", "populations_watched", "flow_outputs_consumed"]
EXHAUSTIVE = True

NS = ["numpy", "torch", "jax"]
CLASSES = ["BaseSamples", "Samples", "SMCSamples"]
DTS = [None, "float32", "float64", "native32", "native64"]


def native(xp_name, w):
    if xp_name == "torch":
        import torch

        return getattr(torch, f"float{w}")
    if xp_name == "jax":
        import jax.numpy as jnp

        return jnp.dtype(f"float{w}")
    return np.dtype(f"float{w}")


def cases(tier, seed):
    out = []
    for cls in CLASSES:
        for a in NS:
            out.append({"kind": "grid", "cls": cls, "src": a, "seed": [seed, 15]})
    out.append({"kind": "helpers"})
    samplers = ["importance", "smc", "emcee_smc", "minipcn", "emcee"]
    for xpn in NS:
        for dt in [None, "float32", "float64"]:
            # blackjax + float32 under jax_enable_x64 is a documented-known limitation (xfail in the repository's tests)
            for smp in samplers + (["blackjax_smc"] if xpn == "jax" and dt != "float32" else []):
                out.append({"kind": "run", "xp": xpn, "dtype": dt, "sampler": smp, "seed": [seed, 15, len(out)]})
                if smp == "importance":
                    continue
                # preconditioning variants: the transforms must not move populations to another width either
                pcs = [{"preconditioning": "default", "preconditioning_kwargs": {"affine_transform": True, "bounded_to_unbounded": True}}]
                if tier == "thorough":
                    pcs += [
                        {"preconditioning": "none"},
                        {"preconditioning": "default", "preconditioning_kwargs": {"affine_transform": True}},
                        {"preconditioning": "default", "preconditioning_kwargs": {"bounded_to_unbounded": True, "bounded_transform": "probit"}},
                    ]
                elif smp not in ("smc", "minipcn"):
                    pcs = []
                for pc in pcs:
                    if smp == "blackjax_smc" and pc["preconditioning"] == "none":
                        continue
                    out.append({"kind": "run", "xp": xpn, "dtype": dt, "sampler": smp, "precond": pc, "seed": [seed, 15, len(out)]})
    for backend in ("zuko", "flowjax"):
        for xpn in NS:
            for dt in ([None, "float64"] if tier == "quick" else [None, "float32", "float64"]):
                out.append({"kind": "realflow", "backend": backend, "xp": xpn, "dtype": dt, "seed": [seed, 15, len(out)]})
    return out


def _vals(a):
    return None if a is None else np.asarray(to_np(a), dtype=float)


def run_grid(case, counters, viol, nontrivial):
    from aspire import samples as S

    C = getattr(S, case["cls"])
    a = case["src"]
    xa = env.xp_of(a)
    g = np.random.default_rng(case["seed"])
    n, d = 7, 2
    x0 = g.standard_normal((n, d))
    f0 = [g.standard_normal(n) for _ in range(3)]
    for b in NS:
        xb = env.xp_of(b)
        for dts in DTS:
            if dts is None:
                dt = None
            elif dts.startswith("native"):
                dt = native(a, dts[-2:])
            else:
                dt = dts
            for mask in itertools.product([0, 1], repeat=4):
                # half of the cells are built from views into larger arrays (a parameter subset of a chain, a thinned chain,
                # columns of a table of log-densities): same values, another memory layout
                views = bool(mask[0] ^ mask[3])
                if views:
                    big = np.zeros((2 * n, 2 * d + 1))
                    big[::2, 1::2] = x0
                    tab = np.zeros((n, 5))
                    tab[:, [0, 2, 4]] = np.column_stack(f0)
                    big_a, tab_a = xa.asarray(big), xa.asarray(tab)
                    kw = dict(x=big_a[::2, 1::2], xp=xa, dtype=dt)
                    fsrc = [tab_a[:, 0], tab_a[:, 2], tab_a[:, 4]]
                    counters["cells_built_from_strided_views"] += 1
                else:
                    kw = dict(x=xa.asarray(x0), xp=xa, dtype=dt)
                    fsrc = [xa.asarray(arr) for arr in f0]
                for flag, name, arr in zip(mask[:3], ("log_likelihood", "log_prior", "log_q"), fsrc):
                    if flag:
                        kw[name] = arr
                if mask[3]:
                    kw["parameters"] = ["alpha", "beta_"]
                s = C(**kw)
                w0 = width_of(s.x)
                ops = [("to_namespace", None), ("from_samples", None), ("to_numpy", None)]
                if mask in ((1, 1, 1, 1), (0, 0, 0, 0), (1, 0, 1, 0)):
                    # conversions that also request a width: the result must have exactly that width
                    ops += [("to_namespace", "float32"), ("to_namespace", "float64"), ("from_samples", "float32"), ("from_samples", "float64"), ("to_numpy", "float32")]
                for op, req in ops:
                    if op == "to_numpy" and b != "numpy":
                        continue
                    if op == "to_numpy" and req is not None and "dtype" not in inspect.signature(C.to_numpy).parameters:
                        continue  # this class's to_numpy takes no dtype argument
                    cell = f"{case['cls']}|{a}->{b}|{dts}|{mask}|{op}|req={req}"
                    counters["grid_cells_judged"] += 1
                    w_expect = w0 if req is None else int(req[-2:])
                    try:
                        if op == "to_namespace":
                            r = s.to_namespace(xb) if req is None else s.to_namespace(xb, dtype=req)
                        elif op == "from_samples":
                            r = C.from_samples(s, xp=xb) if req is None else C.from_samples(s, xp=xb, dtype=req)
                        else:
                            r = s.to_numpy() if req is None else s.to_numpy(dtype=req)
                    except Exception as exc:  # noqa: BLE001
                        viol.append({"mech": f"C15/{op}-raises", "detail": f"{cell}: {type(exc).__name__}: {str(exc)[:160]}"})
                        continue
                    bad = []
                    if ns_name(r.xp) != b:
                        bad.append(f"namespace {ns_name(r.xp)}")
                    for name in ("x", "log_likelihood", "log_prior", "log_q"):
                        src, dst = getattr(s, name), getattr(r, name)
                        if (src is None) != (dst is None):
                            bad.append(f"{name} presence changed")
                        elif src is not None:
                            if ns_name_of_array(dst) != b:
                                bad.append(f"{name} is a {type(dst).__name__}")
                            truth = {"x": x0, "log_likelihood": f0[0], "log_prior": f0[1], "log_q": f0[2]}[name]
                            if not np.allclose(_vals(src), truth, rtol=1e-6, atol=1e-6):
                                bad.append(f"{name} values changed on construction")
                            if w_expect >= w0:
                                if not np.array_equal(_vals(src), _vals(dst)):
                                    bad.append(f"{name} values changed")
                            elif not np.allclose(_vals(src), _vals(dst), rtol=1e-6, atol=1e-6):
                                bad.append(f"{name} values changed")
                            if width_of(dst) != w_expect:
                                bad.append(f"{name} width {w0}->{width_of(dst)} (expected {w_expect})")
                    if list(r.parameters) != list(s.parameters):
                        bad.append("parameter names changed")
                    if case["cls"] == "Samples" and all(mask[:3]):
                        if not np.allclose(_vals(r.log_w), _vals(s.log_w), rtol=1e-5, atol=1e-5):
                            bad.append("log_w changed")
                        if not np.isclose(float(to_np(r.log_evidence)), float(to_np(s.log_evidence)), rtol=1e-5, atol=1e-6):
                            bad.append("log_evidence changed")
                        # a selection carries its parent's evidence (C16); converting it must preserve that value too
                        sl = s[2:6]
                        counters["carried_evidence_conversions"] += 1
                        try:
                            if op == "to_namespace":
                                r2 = sl.to_namespace(xb) if req is None else sl.to_namespace(xb, dtype=req)
                            elif op == "from_samples":
                                r2 = None  # from_samples builds a new set from the fields; the evidence is recomputed by design
                            else:
                                r2 = sl.to_numpy() if req is None else sl.to_numpy(dtype=req)
                            if r2 is not None:
                                for fld in ("log_evidence", "log_evidence_error"):
                                    v0, v1 = getattr(sl, fld), getattr(r2, fld)
                                    if (v0 is None) != (v1 is None) or (v0 is not None and not np.isclose(float(to_np(v0)), float(to_np(v1)), rtol=1e-5, atol=1e-6)):
                                        bad.append(f"{fld} carried by a selection changed {None if v0 is None else float(to_np(v0))} -> {None if v1 is None else float(to_np(v1))}")
                        except Exception as exc:  # noqa: BLE001
                            bad.append(f"conversion of a selection raises {type(exc).__name__}: {str(exc)[:100]}")
                    if bad:
                        first = bad[0]
                        key = "carried-evidence-changed" if "carried" in first else "width-changed" if "width" in first else ("values-changed" if "values" in first else ("namespace-wrong" if "namespace" in first or " is a " in first else ("field-presence-changed" if "presence" in first else "other")))
                        viol.append({"mech": f"C15/{op}-{key}", "detail": f"{cell}: {bad}"})
                    if a != b or w0 != (32 if a == "torch" else 64):
                        nontrivial.add(cell)


def ns_name_of_array(a):
    t = type(a).__module__
    if t.startswith("torch"):
        return "torch"
    if t.startswith("jax"):
        return "jax"
    return "numpy"


def run_helpers(counters, viol, nontrivial):
    import jax.numpy as jnp
    import torch

    from aspire.utils import convert_dtype, resolve_dtype

    spell = {
        32: ["float32", "Float32", "FLOAT32", np.dtype("float32"), np.float32, torch.float32, jnp.float32, jnp.dtype("float32"), "torch.float32", "numpy.float32"],
        64: ["float64", "Float64", "FLOAT64", np.dtype("float64"), np.float64, torch.float64, jnp.float64, jnp.dtype("float64"), "torch.float64"],
        16: ["float16", np.float16, torch.float16],
    }
    for w, sp in spell.items():
        for s in sp:
            for tn in NS:
                txp = env.xp_of(tn)
                for fn_name, fn in (("convert_dtype", lambda d: convert_dtype(d, txp)), ("resolve_dtype", lambda d: resolve_dtype(d, txp))):
                    same_ns = isinstance(s, str) or ns_of_dtype(s) == tn
                    if fn_name == "resolve_dtype" and not same_ns:
                        continue  # resolve_dtype is documented for strings / same-namespace objects
                    cell = f"{fn_name}|{s!r}|{tn}"
                    counters["helper_cells_judged"] += 1
                    try:
                        r = fn(s)
                        arr = txp.zeros(2, dtype=r)
                        if width_of(arr) != w:
                            viol.append({"mech": f"C15/{fn_name}-width", "detail": f"{cell}: got {r!r} -> width {width_of(arr)} expected {w}"})
                    except Exception as exc:  # noqa: BLE001
                        viol.append({"mech": f"C15/{fn_name}-raises", "detail": f"{cell}: {type(exc).__name__}: {str(exc)[:160]}"})
                    nontrivial.add(cell)


def ns_of_dtype(d):
    m = getattr(d, "__module__", "") or ""
    if str(d).startswith("torch."):
        return "torch"
    if m.startswith("jax"):
        return "jax"
    return "numpy"


def small_target():
    return Target([Coord("box", -4.0, 6.0, 1.0, 0.8), Coord("box", -5.0, 5.0, -0.5, 1.1)])


def run_sampler(case, counters, viol, nontrivial):
    import pickle

    xpn, dt, smp = case["xp"], case["dtype"], case["sampler"]
    t = small_target()
    fk = {}
    if case.get("precond"):
        # a proposal with about half of its mass outside the prior support: the initial population then needs several
        # proposal rounds (and their concatenation), which must keep the width as well
        from ..harness import proposal_for

        t = Target([Coord("box", -1.0, 6.0, 1.0, 0.8), Coord("box", -5.0, 0.5, -0.5, 1.1)])
        fk = proposal_for(t, widen=3.0, shift=-1.0)
        counters["runs_with_leaking_proposal"] += 1
    a, probe = make_aspire(t, xpn, dtype=dt, seed=int(case["seed"][-1]), flow_kwargs=fk)
    want = None if dt is None else int(dt[-2:])
    payloads = []
    kw = {}
    if smp in ("smc", "emcee_smc", "blackjax_smc"):
        kw = dict(checkpoint_callback=lambda st: payloads.append(pickle.dumps(st)), checkpoint_every=1, n_final_samples=24)
        if smp == "smc":
            kw.update(rng=np.random.default_rng(3), sampler_kwargs=dict(n_steps=2))
        elif smp == "emcee_smc":
            kw.update(sampler_kwargs=dict(nsteps=2, progress=False))
        else:
            kw.update(rng=np.random.default_rng(3), sampler_kwargs=dict(algorithm="rwmh", n_steps=2, sigma=0.3))
    elif smp == "minipcn":
        kw = dict(n_steps=3, rng=np.random.default_rng(3))
    elif smp == "emcee":
        kw = dict(nsteps=3)
    pc = case.get("precond") or {}
    kw.update({k: (dict(v) if isinstance(v, dict) else v) for k, v in pc.items()})
    where = f"run xp={xpn} dtype={dt} sampler={smp} precond={pc or 'default'}"
    out = a.sample_posterior(32, sampler=smp, return_history=True, **kw)
    s, h = out
    pops = [("returned", s)]
    if h is not None and getattr(h, "sample_history", None):
        pops += [(f"history[{i}]", p) for i, p in enumerate(h.sample_history)]
    for i, pb in enumerate(payloads[:3]):
        pops.append((f"checkpoint[{i}]", pickle.loads(pb)["samples"]))
    if payloads and smp in ("smc", "emcee_smc"):
        # restored population
        kw2 = dict(kw)
        kw2.pop("checkpoint_callback")
        kw2.pop("checkpoint_every")
        if smp == "smc":
            kw2["rng"] = np.random.default_rng(4)
        a2, _ = make_aspire(t, xpn, dtype=dt, seed=int(case["seed"][-1]), flow_kwargs=fk)
        s2, h2 = a2.sample_posterior(32, sampler=smp, return_history=True, resume_from=payloads[0], **kw2)
        pops.append(("resumed-returned", s2))
        pops += [(f"resumed-history[{i}]", p) for i, p in enumerate(h2.sample_history)]
    if payloads and smp in ("smc", "emcee_smc") and not case.get("precond"):
        # the finished checkpoint continued by a sampler of another namespace: the restored / returned population is a
        # conversion of the stored one - same values, same width (the requested one, or the stored one if none was requested)
        stored = pickle.loads(payloads[-1])["samples"]
        for b in NS:
            if b == xpn:
                continue
            kw3 = {k: v for k, v in kw.items() if k not in ("checkpoint_callback", "checkpoint_every")}
            if smp == "smc":
                kw3["rng"] = np.random.default_rng(5)
            a5, _ = make_aspire(t, b, dtype=dt, seed=int(case["seed"][-1]), flow_kwargs=fk)
            counters["continued_in_another_namespace"] += 1
            try:
                s5 = a5.sample_posterior(32, sampler=smp, resume_from=payloads[-1], **kw3)
            except Exception as exc:  # noqa: BLE001
                viol.append({"mech": "C15/continuation-in-another-namespace-raises", "detail": f"{where} -> {b}: {type(exc).__name__}: {str(exc)[:160]}"})
                continue
            w_stored = width_of(stored.x)
            w_want = want if want is not None else w_stored
            if ns_name_of_array(s5.x) != b:
                viol.append({"mech": "C15/run-population-namespace", "detail": f"{where} -> continued in {b}: returned x is {type(s5.x).__name__}"})
            if width_of(s5.x) != w_want:
                viol.append({"mech": "C15/continuation-in-another-namespace-changes-width", "detail": f"{where} -> continued in {b}: stored width {w_stored}, requested {want}, returned {width_of(s5.x)}"})
            elif _vals(s5.x).shape == _vals(stored.x).shape and not np.array_equal(_vals(s5.x), _vals(stored.x)):
                viol.append({"mech": "C15/continuation-in-another-namespace-changes-values", "detail": f"{where} -> continued in {b}: max |dx| {np.max(np.abs(_vals(s5.x) - _vals(stored.x))):.3g}"})
    for name, p in pops:
        counters["populations_watched"] += 1
        for fld in ("x", "log_likelihood", "log_prior", "log_q"):
            arr = getattr(p, fld, None)
            if arr is None:
                continue
            if ns_name_of_array(arr) != xpn:
                viol.append({"mech": "C15/run-population-namespace", "detail": f"{where}: {name}.{fld} is {type(arr).__name__}"})
            if want is not None and width_of(arr) != want:
                viol.append({"mech": "C15/run-population-width", "detail": f"{where}: {name}.{fld} has width {width_of(arr)}, requested {want}"})
    nontrivial.add(f"run|{xpn}|{dt}|{smp}|{pc}")
    if pc:
        return
    # output-namespace option (precision requested as a string and as a native dtype object of the sampling namespace)
    for b, dt_req in [(b, d_) for b in NS for d_ in ([dt] if dt is None else [dt, native(xpn, dt[-2:])])]:
        a3, _ = make_aspire(t, xpn, dtype=dt_req, seed=1)
        counters["output_option_judged"] += 1
        counters["output_option_with_native_dtype_object"] += int(dt_req is not None and not isinstance(dt_req, str))
        try:
            r = a3.sample_posterior(16, sampler="importance", xp=env.xp_of(b))
        except Exception as exc:  # noqa: BLE001
            viol.append({"mech": "C15/sample_posterior-xp-raises", "detail": f"{where} (dtype given as {dt_req!r}) -> xp={b}: {type(exc).__name__}: {str(exc)[:160]}"})
            continue
        a4, _ = make_aspire(t, xpn, dtype=dt_req, seed=1)
        r0 = a4.sample_posterior(16, sampler="importance")
        if ns_name_of_array(r.x) != b or (width_of(r.x) != width_of(r0.x)) or not np.array_equal(_vals(r.x), _vals(r0.x)) or not np.allclose(
            _vals(r.log_w), _vals(r0.log_w), rtol=1e-6
        ):
            viol.append(
                {"mech": "C15/sample_posterior-xp-changes-values-or-width", "detail": f"{where} -> xp={b}: ns={ns_name_of_array(r.x)} width {width_of(r0.x)}->{width_of(r.x)}"}
            )


def run_realflow(case, counters, viol, nontrivial):
    from aspire import Aspire
    from aspire.samples import Samples

    backend, xpn, dt = case["backend"], case["xp"], case["dtype"]
    xp = env.xp_of(xpn)
    t = small_target()
    probe = Probe(t)
    kw = dict(
        log_likelihood=probe.log_likelihood,
        log_prior=probe.log_prior,
        dims=t.dims,
        parameters=list(t.parameters),
        prior_bounds=t.prior_bounds,
        flow_backend=backend,
        xp=xp,
        dtype=dt,
    )
    if backend == "zuko":
        kw.update(hidden_features=[8, 8], transforms=2)
        fit_kw = dict(n_epochs=2, batch_size=64)
    else:
        import jax

        kw.update(key=jax.random.key(3), flow_layers=2, nn_width=8)
        fit_kw = dict(max_epochs=2, batch_size=64, show_progress=False)
    a = Aspire(**kw)
    g = np.random.default_rng(case["seed"])
    xtrain = np.column_stack([g.normal(1.0, 0.8, 200), g.normal(-0.5, 1.1, 200)])
    a.fit(Samples(xp.asarray(xtrain), xp=xp, parameters=list(t.parameters)), **fit_kw)
    where = f"realflow {backend} samples-xp={xpn} dtype={dt}"
    for b in NS:
        xb = env.xp_of(b)
        counters["flow_outputs_consumed"] += 1
        try:
            x, lq = a.flow.sample_and_log_prob(8)
            s = Samples(x, log_q=lq, xp=xb)
            lq2 = a.flow.log_prob(s.x)
            s2 = Samples(x, log_q=lq2, xp=xb)
            for want in (32, 64):
                s3 = Samples(x, log_q=lq, xp=xb, dtype=f"float{want}")
                if width_of(s3.x) != want or width_of(s3.log_q) != want:
                    viol.append({"mech": "C15/flow-output-placed-at-wrong-width", "detail": f"{where} -> Samples(xp={b}, dtype=float{want}): x width {width_of(s3.x)}, log_q width {width_of(s3.log_q)}"})
            if not np.allclose(_vals(s.log_q), _vals(s2.log_q), rtol=2e-4, atol=2e-4):
                viol.append({"mech": "C15/flow-output-values-changed", "detail": f"{where} -> {b}: log_q from draw and log_prob differ after placement"})
        except Exception as exc:  # noqa: BLE001
            viol.append({"mech": f"C15/flow-output-not-consumable/{backend}", "detail": f"{where} -> Samples(xp={b}): {type(exc).__name__}: {str(exc)[:160]}"})
    # inside a run: SMC with stand-in kernel in the configured sample namespace
    import pickle

    payloads = []
    counters["flow_runs"] += 1
    try:
        s, h = a.sample_posterior(
            24,
            sampler="smc",
            return_history=True,
            rng=np.random.default_rng(5),
            sampler_kwargs=dict(n_steps=2),
            checkpoint_callback=lambda st: payloads.append(pickle.dumps(st)),
            checkpoint_every=1,
        )
        want = None if dt is None else int(dt[-2:])
        for name, p in [("returned", s)] + [(f"history[{i}]", p) for i, p in enumerate(h.sample_history)]:
            counters["populations_watched"] += 1
            for fld in ("x", "log_likelihood", "log_prior", "log_q"):
                arr = getattr(p, fld, None)
                if arr is None:
                    continue
                if ns_name_of_array(arr) != xpn:
                    viol.append({"mech": "C15/run-population-namespace", "detail": f"{where}: {name}.{fld} is {type(arr).__name__}"})
                if want is not None and width_of(arr) != want:
                    viol.append({"mech": "C15/run-population-width", "detail": f"{where}: {name}.{fld} width {width_of(arr)} requested {want}"})
    except Exception as exc:  # noqa: BLE001
        import traceback

        tb = traceback.extract_tb(exc.__traceback__)
        last = [f for f in tb if "/aspire/" in f.filename]
        loc = f"{last[-1].filename.split('/aspire/')[-1]}:{last[-1].name}" if last else "?"
        viol.append({"mech": f"C15/smc-run-with-{backend}-proposal-raises", "detail": f"{where}: {type(exc).__name__} at {loc}: {str(exc)[:200]}"})
    nontrivial.add(f"realflow|{backend}|{xpn}|{dt}")


def run_case(case):
    from collections import Counter

    counters = Counter({k: 0 for k in REQUIRED_COUNTERS})
    viol = []
    nontrivial = set()
    k = case["kind"]
    if k == "grid":
        run_grid(case, counters, viol, nontrivial)
    elif k == "helpers":
        run_helpers(counters, viol, nontrivial)
    elif k == "run":
        run_sampler(case, counters, viol, nontrivial)
    else:
        run_realflow(case, counters, viol, nontrivial)
    seen = {}
    for v in viol:
        seen.setdefault(v["mech"], dict(v, count=0))["count"] += 1
    return {"viol": list(seen.values()), "counters": dict(counters), "nontrivial": sorted(nontrivial), "sample": {"case": case, "cells": sorted(nontrivial)[:3]}}
