"""C01 - posterior samples and evidence are statistically correct on known targets.

Statistical monitor over replicated end-to-end runs of the real samplers (importance sampling and
the SMC variants with stand-in kernels) on targets with closed-form evidence and moments.  Each
case is one configuration cell: R independent replicates give the replicate mean of Z_hat/Z and of
the (weighted) posterior mean / variance (circular moments for periodic coordinates) with standard
errors from the replicate spread; a statistic is judged at |stat - truth| <= 5 SE + bias
allowance.  A failing cell is re-run with fresh seeds and 4x the replicates and must fail again
(deterministic biases always do, a 5-sigma fluke does not).
"""
from __future__ import annotations

import math

import numpy as np

from .. import recorded, smcrun
from ..harness import to_np
from ..targets import Coord, Target

ID = "C01"
LEVEL = "exploration"
RULE = (
    "cells = target {box gaussian, truncated gaussian hugging a bound, von Mises with the mode on the seam, products; 1-4 dims} x sampler "
    "{importance, MiniPCNSMC, EmceeSMC, BlackJAXSMC-rwmh} x preconditioning {none, default, +logit, +probit, +affine, combinations, periodic "
    "wrapping} x schedule {adaptive, fixed} x namespace x proposal {truncated to the prior support (A=1), leaking outside it (A<1), student-t}; "
    "R replicates per cell (16 quick / 32 thorough), two-stage rule. non-trivial = cell with a non-identity preconditioning map or A<1 or a "
    "bound-hugging / periodic coordinate; distinct = the cell signature"
)
ASSUMPTIONS = [
    "stand-in Metropolis kernels (exactly invariant) replace minipcn / emcee / blackjax",
    "CLT calibration: 5 standard errors from the replicate spread; bias allowance 0 for importance-sampling evidence, 3/N relative for SMC evidence and for moments",
    "a cell whose replicate CV of Z_hat exceeds 0.5 is inconclusive, not held",
    "sensitivity about 2-3% in Z and 0.05 posterior sd in moments at the quick tier",
]
REQUIRED_COUNTERS = ["cells", "replicates", "statistics_judged", "smc_cells", "importance_cells"]
CHUNK = 1
CHUNK_TIMEOUT = 1800

KF_MECH = "C01/smc-evidence-inflated-by-inverse-prior-support-mass-of-proposal"


def gen_cell(g, k, tier):
    kinds = [["box", "box"], ["hug"], ["hug", "box"], ["vonmises", "box"], ["vonmises"], ["box", "hug", "box"], ["box", "box", "vonmises", "hug"], ["vonmises", "box", "vonmises"]]
    tk = kinds[k % len(kinds)]
    from ..targets import family

    sampler = ["importance", "smc", "smc", "emcee_smc", "smc", "blackjax_smc"][k % 6]
    if sampler == "blackjax_smc" and k % 12 != 5:
        sampler = "smc"
    if sampler == "blackjax_smc":
        tk = tk[:2]  # every blackjax run re-compiles its kernel: keep these cells small
    t = family(g, dims=len(tk), kinds=tk)
    xpn = "jax" if sampler == "blackjax_smc" else ["numpy", "numpy", "torch", "jax", "numpy"][(k // 2) % 5]
    N = {"quick": 300, "thorough": 1000}[tier]
    if sampler == "blackjax_smc":
        N = 100
    cfg = recorded.default_cfg(g, target=t.describe(), sampler=sampler, xp=xpn, dtype=None if xpn != "torch" else "float64", n=N)
    cfg["kernel_steps"] = 4
    # leak (A < 1) must be decorrelated from the sampler index: force both values for importance sampling
    leak = bool(g.random() < 0.5)
    if sampler == "importance":
        leak = bool((k // 6) % 2 == 0)
    if sampler == "blackjax_smc" and tier == "quick":
        leak = False  # (a leaking proposal triggers the 4x second stage through the known finding)
    cfg["flow"] = {"truncate": not leak, "widen": float(g.uniform(1.6, 2.4)), "shift": float(g.uniform(-0.4, 0.4))}
    if leak and g.random() < 0.3:
        cfg["flow"]["family"] = "student"
    if sampler == "importance":
        cfg["precond"] = {"preconditioning": None, "kwargs": {}}
        cfg["opts"] = {}
        cfg["n"] = 4 * N
    else:
        pk = {}
        mode = ["none", "default", "logit", "probit", "affine", "logit_affine", "probit_affine"][(k // 5) % 7]
        if mode == "none":
            cfg["precond"] = {"preconditioning": "none", "kwargs": {}}
        else:
            if "affine" in mode:
                pk["affine_transform"] = True
            if "logit" in mode or "probit" in mode:
                pk["bounded_to_unbounded"] = True
                pk["bounded_transform"] = "logit" if "logit" in mode else "probit"
            cfg["precond"] = {"preconditioning": "default", "kwargs": pk}
        cfg["pmode"] = mode
        if (k // 7) % 3 == 0:
            cfg["opts"] = {"adaptive": False, "n_steps": 8}
        else:
            cfg["opts"] = {"adaptive": True, "target_efficiency": 0.6}
    if sampler in ("smc", "emcee_smc") and k % 5 == 3:
        # final enlargement: the returned (larger or smaller) set must still be a sample of the posterior
        cfg["opts"]["n_final_samples"] = int(N * (2 if k % 2 else 0.5))
    cfg["leak"] = leak
    cfg["reuse_sampler"] = bool(sampler in ("smc", "emcee_smc") and k % 4 == 1)
    c0 = t.coords[0]
    if c0.kind == "box" and g.random() < 0.25 and sampler != "blackjax_smc":
        # likelihood with a hard cut inside the prior support (zero-weight particles); truth: gaussian truncated to [cut, hi]
        cut = float(c0.mu - g.uniform(0.0, 1.2) * c0.s)
        if c0.lo < cut < c0.hi:
            cfg["cut_below"] = cut
    return cfg, t


def cases(tier, seed):
    n = {"quick": 42, "thorough": 420}[tier]
    return [{"k": k, "seed": [seed, 1, k], "tier": tier} for k in range(n)]


def one_replicate(cfg, t, rep_seed, reuse=None):
    c = dict(cfg, flow_seed=int(rep_seed), rng_seed=int(rep_seed) + 1)
    if reuse is not None and reuse.get("aspire") is not None:
        # replicate on the very same sampler object (its generators simply continue): state carried across calls
        import inspect

        a = reuse["aspire"]
        A = a.flow.support_mass(t.lo, t.hi)
        kw = recorded.sample_kwargs(c)
        for k in ("preconditioning", "preconditioning_kwargs", "rng"):
            kw.pop(k, None)
        kw = {k: v for k, v in kw.items() if k in inspect.signature(a.sampler.sample).parameters}
        s = a.sampler.sample(cfg["n"], **kw)
        x = np.asarray(to_np(s.x), dtype=float)
        w = np.full(len(x), 1.0 / len(x))
        logz = float(to_np(s.log_evidence))
        return _stats(cfg, t, x, w, logz), A, 1.0 / float(np.sum(w**2))
    t_, a, probe = recorded.build(c)
    if reuse is not None:
        reuse["aspire"] = a
    A = a.flow.support_mass(t.lo, t.hi)
    if cfg["sampler"] == "importance":
        s = a.sample_posterior(cfg["n"], sampler="importance")
        x = np.asarray(to_np(s.x), dtype=float)
        lw = np.asarray(to_np(s.log_w), dtype=float)
        w = np.exp(lw - np.max(lw))
        w = w / w.sum()
        logz = float(to_np(s.log_evidence))
    else:
        if cfg["sampler"] == "emcee_smc":
            np.random.seed(int(rep_seed) % 2**32)
        kw = recorded.sample_kwargs(c)
        res = smcrun.run(a, cfg["n"], cfg["sampler"], kw, identity=False, max_calls=5000, rec=smcrun.Recorder(keep_vectors=False))
        if res.exc is not None:
            raise res.exc
        s = res.samples
        x = np.asarray(to_np(s.x), dtype=float)
        w = np.full(len(x), 1.0 / len(x))
        logz = float(to_np(s.log_evidence))
    if cfg["sampler"] == "blackjax_smc":
        import jax

        jax.clear_caches()  # every run jit-compiles fresh closures; do not let the executables pile up
    ess = 1.0 / float(np.sum(w**2))
    return _stats(cfg, t, x, w, logz), A, ess


def _stats(cfg, t, x, w, logz):
    stats = {"z": math.exp(logz - truth_target(cfg, t)[1])}
    for j, cdesc in enumerate(t.coords):
        if cdesc.kind == "box":
            m = float(np.sum(w * x[:, j]))
            stats[f"mean{j}"] = m
            stats[f"var{j}"] = float(np.sum(w * (x[:, j] - m) ** 2))
        else:
            stats[f"cos{j}"] = float(np.sum(w * np.cos(x[:, j] - cdesc.mu)))
            stats[f"sin{j}"] = float(np.sum(w * np.sin(x[:, j] - cdesc.mu)))
    return stats


def truth_target(cfg, t):
    """(target whose closed forms are the truth, log of the true evidence)."""
    cut = cfg.get("cut_below")
    if cut is None:
        return t, t.log_z()
    c0 = t.coords[0]
    tt = Target([Coord("box", cut, c0.hi, c0.mu, c0.s)] + list(t.coords[1:]))
    return tt, tt.log_z() + math.log((c0.hi - cut) / (c0.hi - c0.lo))


def truths(t):
    tr = {"z": 1.0}
    sc = {"z": 1.0}
    for j, (c, (m1, m2)) in enumerate(zip(t.coords, t.moments())):
        if c.kind == "box":
            tr[f"mean{j}"], sc[f"mean{j}"] = m1, math.sqrt(m2)
            tr[f"var{j}"], sc[f"var{j}"] = m2, m2
        else:
            tr[f"cos{j}"], sc[f"cos{j}"] = float(m1), 1.0
            tr[f"sin{j}"], sc[f"sin{j}"] = 0.0, 1.0
    return tr, sc


def stage(cfg, t, R, base_seed, counters):
    reps = []
    A = None
    esss = []
    reuse = {} if cfg.get("reuse_sampler") else None
    for r in range(R):
        st, A, ess = one_replicate(cfg, t, base_seed + 1000 * r + 7, reuse=reuse)
        reps.append(st)
        esss.append(ess)
        counters["replicates"] += 1
    tr, sc = truths(truth_target(cfg, t)[0])
    N = cfg["n"]
    out = {}
    for k in tr:
        v = np.array([rp[k] for rp in reps])
        mean = float(v.mean())
        se = float(v.std(ddof=1) / math.sqrt(R))
        if k == "z":
            b = 0.0 if cfg["sampler"] == "importance" else 3.0 / N
            if cfg["sampler"] != "importance" and cfg["opts"].get("adaptive", True) is False:
                b = 1.0 / N
        else:
            neff = float(np.mean(esss))
            b = 3.0 / max(min(N, neff), 1.0) * sc[k]
            if k.startswith("var"):
                b += 2.0 / max(min(N, neff), 1.0) * sc[k]
        out[k] = {"mean": mean, "se": se, "truth": tr[k], "bias_allow": b, "z": (mean - tr[k]) / max(se, 1e-300), "fail": abs(mean - tr[k]) > 5 * se + b, "cv": float(v.std(ddof=1) / max(abs(mean), 1e-300))}
    return out, A


def classify(cfg, res, A):
    """mechanism labels for failing statistics of one stage."""
    fails = [k for k, v in res.items() if v["fail"]]
    if not fails:
        return []
    labels = []
    moments_ok = all(not res[k]["fail"] for k in res if k != "z")
    if "z" in fails:
        zr = res["z"]
        if cfg["sampler"] != "importance" and A < 1 - 1e-9 and abs(zr["mean"] - 1.0 / A) <= 5 * zr["se"] + zr["bias_allow"] / A and moments_ok:
            labels.append(KF_MECH)
        else:
            labels.append(f"C01/evidence-biased/{cfg['sampler']}")
    for k in fails:
        if k != "z":
            labels.append(f"C01/posterior-{k.rstrip('0123456789')}-biased/{cfg['sampler']}")
    return sorted(set(labels))


def run_case(case):
    from collections import Counter

    counters = Counter({k: 0 for k in REQUIRED_COUNTERS})
    viol = []
    inconclusive = []
    g = np.random.default_rng(case["seed"])
    cfg, t = gen_cell(g, case["k"], case["tier"])
    R = {"quick": 16, "thorough": 32}[case["tier"]]
    if cfg["sampler"] == "blackjax_smc":
        R = R // 2  # each replicate recompiles the kernel; the evidence path is the shared base-class code
    counters["cells"] += 1
    counters["smc_cells" if cfg["sampler"] != "importance" else "importance_cells"] += 1
    base = int(g.integers(1, 10**8))
    res, A = stage(cfg, t, R, base, counters)
    counters["statistics_judged"] += len(res)
    shown = {"sampler": cfg["sampler"], "xp": cfg["xp"], "n": cfg["n"], "opts": cfg["opts"], "precond": cfg["precond"], "flow": cfg["flow"], "cut_below": cfg.get("cut_below"), "replicates_on_one_sampler_object": cfg.get("reuse_sampler"), "target": t.describe()["coords"], "A": round(A, 4)}
    where = f"{shown}"
    labels1 = classify(cfg, res, A)
    final = res
    if labels1:
        # confirm-on-fail: fresh seeds, 4x replicates
        res2, _ = stage(cfg, t, 4 * R, base + 555555, counters)
        counters["second_stage_cells"] += 1
        labels2 = classify(cfg, res2, A)
        confirmed = sorted(set(labels1) & set(labels2))
        final = res2
        for lab in confirmed:
            ks = [k for k in res2 if res2[k]["fail"]]
            det = "; ".join(f"{k}: mean {res2[k]['mean']:.5g} truth {res2[k]['truth']:.5g} se {res2[k]['se']:.2g} ({res2[k]['z']:+.1f} sigma)" for k in ks)
            viol.append({"mech": lab, "detail": f"{where}: confirmed on {4*R} fresh replicates: {det}; 1/A = {1/A:.5g}"})
        if not confirmed:
            counters["first_stage_flukes"] += 1
    if final["z"]["cv"] > 0.5:
        inconclusive.append(f"replicate CV of Z_hat = {final['z']['cv']:.2f} > 0.5 in cell {where}")
    nontriv = cfg["leak"] or any(c.kind == "vonmises" for c in t.coords) or (cfg["precond"].get("kwargs")) or any(abs(c.mu - c.lo) < c.s or abs(c.hi - c.mu) < c.s for c in t.coords if c.kind == "box")
    sig = f"{cfg['sampler']}|{cfg['xp']}|{cfg.get('pmode')}|{'fixed' if cfg['opts'].get('adaptive', True) is False else 'adaptive'}|leak={cfg['leak']}|{cfg['flow'].get('family','gauss')}|{[c.kind for c in t.coords]}"
    seen = {}
    for v in viol:
        seen.setdefault(v["mech"], dict(v, count=0))["count"] += 1
    return {
        "viol": list(seen.values()),
        "counters": dict(counters),
        "nontrivial": [sig] if nontriv else [],
        "inconclusive": inconclusive,
        "sample": {"cell": shown, "stats": {k: {kk: (round(vv, 6) if isinstance(vv, float) else vv) for kk, vv in v.items()} for k, v in final.items()}},
    }
