"""C11 - resuming from any checkpoint reproduces the uninterrupted run.

Fault enumeration: for each configuration the uninterrupted reference run R is recorded; then for
EVERY likelihood call index k of R a run F_k with the same seeds is crashed at call k (exception
from the user's likelihood) while checkpointing to a file.  The last checkpoint F_k left behind
is compared with the payload R produced at that iteration (determinism up to the crash) and the
run is resumed from it by four routes - bytes, dictionary, file path, Aspire.resume_from_file -
with a *differently seeded* user generator; the resumed run's schedule, populations, evidence,
history series and final samples must equal R's (bit for bit for numpy / jax-x64).
"""
from __future__ import annotations

import os
import pickle

import numpy as np

from .. import env, recorded
from ..harness import InjectedFault, InjectedInterrupt, Probe, pop_to_np, rm_tmp, tmpfile, to_np
from ..targets import Target

ID = "C11"
LEVEL = "fault_enumeration"
RULE = (
    "configurations = targets (1-2 dims) x schedule {adaptive, fixed n, max_n_steps, min_step, ramped target} x cadence {1,2,3} x n_final_samples "
    "{None, larger} x preconditioning {none, default, affine, bounded, periodic} x {MiniPCNSMC (numpy/torch/jax), BlackJAXSMC}; for each, a crash "
    "is injected at every likelihood call index of the reference run; each distinct surviving checkpoint is resumed by 4 routes; on the dictionary, path and constructor routes the continuation is then interrupted itself and continued once more from the same source. non-trivial = "
    "crash point after >=1 checkpoint and before the end; distinct = distinct (configuration signature, crash index)"
)
ASSUMPTIONS = [
    "interruption = exception raised by the user's likelihood (process kill in the middle of an HDF5 write is out of scope)",
    "EmceeSMC is excluded: it accepts no random source, so no reference run exists to compare with",
    "torch populations are compared at 1e-6 relative tolerance, numpy and jax bit for bit",
]
REQUIRED_COUNTERS = ["configurations", "crash_points", "crash_points_after_checkpoint", "resumes", "routes_bytes", "routes_dict", "routes_path", "routes_resume_from_file"]
EXHAUSTIVE = True
CHUNK = 1
CHUNK_TIMEOUT = 1500


def cases(tier, seed):
    n = {"quick": 16, "thorough": 160}[tier]
    out = [{"seed": [seed, 11, k], "k": k} for k in range(n)]
    # the preconditioner that has trained state of its own: a real (tiny) flow refitted at every iteration
    for j in range({"quick": 1, "thorough": 6}[tier]):
        out.append({"kind": "flowprec", "seed": [seed, 111, j], "k": j})
    return out


def gen_cfg(g, k):
    from ..targets import Coord

    d = int(g.integers(1, 3))
    coords = []
    for j in range(d):
        lo = float(g.uniform(-5, -1))
        hi = lo + float(g.uniform(4, 9))
        coords.append(Coord("box", lo, hi, float(g.uniform(lo + 0.3 * (hi - lo), hi - 0.3 * (hi - lo))), float(g.uniform(0.3, 0.8))))
    per = k % 5 == 4
    if per:
        import math

        coords[0] = Coord("vonmises", 0.0, 2 * math.pi, 0.05, 2.5)
    t = Target(coords)
    sampler = "blackjax_smc" if k % 8 == 7 else "smc"
    xpn = "jax" if sampler == "blackjax_smc" else ["numpy", "numpy", "torch", "jax"][k % 4]
    cfg = recorded.default_cfg(g, target=t.describe(), sampler=sampler, xp=xpn, dtype=("float32" if k % 6 == 2 and sampler == "smc" else None if xpn != "torch" else "float64"), n=int(g.integers(16, 36)))
    cfg["kernel_steps"] = int(g.integers(1, 3))
    cfg["flow"] = {"truncate": bool(g.random() < 0.5), "widen": float(g.uniform(2.5, 4.5)), "shift": float(g.uniform(-1, 1))}
    sched = ["adaptive", "fixed", "cap", "floor", "ramp"][k % 5]
    if sched == "fixed":
        cfg["opts"] = {"adaptive": False, "n_steps": int(g.integers(3, 7))}
    elif sched == "cap" and sampler == "smc":
        # small caps with a demanding target so that the cap (and the rescaled minimum step) actually binds
        cfg["opts"] = {"adaptive": True, "target_efficiency": float(g.uniform(0.9, 0.97)), "max_n_steps": int(g.integers(3, 6))}
        if k % 2 == 0:
            # a fixed schedule cut short by the cap: the run ends at beta < 1 (and may still enlarge the final population)
            nst = int(g.integers(4, 8))
            cfg["opts"] = {"adaptive": False, "n_steps": nst, "max_n_steps": int(g.integers(2, nst))}
    elif sched == "floor" and sampler == "smc":
        cfg["opts"] = {"adaptive": True, "target_efficiency": float(g.uniform(0.75, 0.92)), "min_step": float(g.uniform(0.05, 0.2))}
    elif sched == "ramp":
        cfg["opts"] = {"adaptive": True, "target_efficiency": (0.5, 0.9), "target_efficiency_rate": 1.0}
    else:
        cfg["opts"] = {"adaptive": True, "target_efficiency": float(g.uniform(0.75, 0.92))}
    cfg["sched"] = sched
    if g.random() < 0.4 or k % 4 == 1:
        cfg["opts"]["n_final_samples"] = int(cfg["n"] + g.integers(3, 20))
        if sampler == "smc" and k % 2 == 1:
            cfg["n_final_steps"] = cfg["kernel_steps"] + int(g.integers(1, 4))
    cfg["ckpt_every"] = int([1, 2, 3][k % 3])
    pk = {}
    mode = ["default", "affine", "bounded", "none", "bounded_affine"][(k // 2) % 5]
    if mode == "none":
        cfg["precond"] = {"preconditioning": "none", "kwargs": {}}
    else:
        if "affine" in mode:
            pk["affine_transform"] = True
        if "bounded" in mode:
            pk["bounded_to_unbounded"] = True
            pk["bounded_transform"] = str(g.choice(["logit", "probit"]))
        cfg["precond"] = {"preconditioning": "default", "kwargs": pk}
    cfg["pmode"] = mode
    if sampler == "blackjax_smc":
        cfg["n"] = int(g.integers(10, 16))
        cfg["kernel_steps"] = 2
    return cfg


def flowprec_case(case):
    """preconditioning="flow" with a real zuko flow: crash, resume, compare with the uninterrupted run."""
    from collections import Counter

    from aspire import Aspire
    from aspire.samples import Samples

    counters = Counter({k: 0 for k in REQUIRED_COUNTERS})
    viol = []
    g = np.random.default_rng(case["seed"])
    from ..targets import Coord

    d = int(g.integers(1, 3))
    t = Target([Coord("box", -5.0, 5.0, float(g.uniform(-1, 1)), float(g.uniform(0.6, 1.2))) for _ in range(d)])
    xp = env.xp_of("torch")
    xtrain = np.clip(np.column_stack([g.normal(c.mu, 1.5 * c.s, 200) for c in t.coords]), -4.9, 4.9)
    fseed = int(g.integers(1, 1000))
    b2u = bool(g.random() < 0.5)

    def build(probe):
        a = Aspire(log_likelihood=probe.log_likelihood, log_prior=probe.log_prior, dims=d, parameters=list(t.parameters), prior_bounds=t.prior_bounds,
                   flow_backend="zuko", xp=xp, dtype="float64", bounded_to_unbounded=b2u, hidden_features=[8, 8], transforms=2, seed=fseed)
        a.fit(Samples(xp.asarray(xtrain), xp=xp, parameters=list(t.parameters)), n_epochs=2, batch_size=64)
        return a

    cfg = {"target": t.describe(), "xp": "torch", "dtype": "float64", "sampler": "smc", "n": int(g.integers(16, 28)), "kernel_steps": 1,
           "opts": {"adaptive": False, "n_steps": int(g.integers(3, 5))}, "rng_seed": int(g.integers(10**6)), "ckpt_every": 1,
           "precond": {"preconditioning": "flow", "kwargs": {"fit_kwargs": {"n_epochs": 2, "batch_size": 16}}}}
    if g.random() < 0.5:
        cfg["opts"]["n_final_samples"] = cfg["n"] + 5
    where = f"flow preconditioning (zuko) d={d} b2u={b2u} n={cfg['n']} opts={cfg['opts']}"
    counters["configurations"] += 1
    p0 = Probe(t)
    R = recorded.record(cfg, aspire=build(p0), probe=p0)
    if R.exc is not None:
        raise R.exc
    n_calls = R.probe.n_like_calls
    T = len(R.hist["beta"])
    nontrivial = []
    seen_it = set()
    for k in sorted({int(n_calls * f) for f in (0.35, 0.55, 0.75, 0.95)}):
        counters["crash_points"] += 1
        path = tmpfile("ckf.h5")
        try:
            pf = Probe(t, fault_like_at=k)
            F = recorded.record(cfg, aspire=build(pf), probe=pf, with_callback=False, ckpt_path=path)
            if not isinstance(F.exc, (InjectedFault, InjectedInterrupt)):
                if F.exc is not None:
                    raise F.exc
                continue
            b = load_file_payload(path)
            if b is None:
                counters["crash_before_first_checkpoint"] += 1
                continue
            counters["crash_points_after_checkpoint"] += 1
            it = pickle.loads(b).get("iteration")
            if it in seen_it:
                continue
            seen_it.add(it)
            for route in ("bytes", "resume_from_file"):
                counters["resumes"] += 1
                counters[f"routes_{route}"] += 1
                p2 = Probe(t)
                if route == "resume_from_file":
                    a2 = Aspire.resume_from_file(path, log_likelihood=p2.log_likelihood, log_prior=p2.log_prior)
                    src = None
                else:
                    a2 = build(p2)
                    src = b
                RR = recorded.record(cfg, aspire=a2, probe=p2, rng=np.random.default_rng(4321 + k), with_callback=False, resume_from=src)
                tag = f"{where} [crash at likelihood call {k}/{n_calls}, checkpoint of iteration {it}/{T}, route {route}]"
                if RR.exc is not None:
                    viol.append({"mech": f"C11/resume-raises/{route}", "detail": f"{tag}: {type(RR.exc).__name__}: {str(RR.exc)[:200]}"})
                    continue
                dd = recorded.same_runs(R, RR, tol=1e-9)
                if dd:
                    viol.append({"mech": "C11/resumed-run-differs/flow-preconditioning", "detail": f"{tag}: {dd[:4]}"})
                nontrivial.append(f"flowprec|{d}|{b2u}|k{k}|{route}")
        finally:
            rm_tmp(path)
    agg = {}
    for v in viol:
        agg.setdefault(v["mech"], dict(v, count=0))["count"] += 1
    return {"viol": list(agg.values()), "counters": dict(counters), "nontrivial": nontrivial, "sample": {"where": where, "iterations": T, "likelihood_calls": n_calls}}


def load_file_payload(path):
    import h5py

    if not os.path.exists(path):
        return None
    with h5py.File(path, "r") as f:
        if "checkpoint" not in f or "state" not in f["checkpoint"]:
            return None
        return f["checkpoint"]["state"][...].tobytes()


def state_digest(b):
    st = pickle.loads(b)
    s = pop_to_np(st["samples"])
    h = st.get("history")
    return {
        "iteration": st.get("iteration"),
        "beta": (st.get("meta") or {}).get("beta"),
        "x": s["x"],
        "ll": s["ll"],
        "lq": s["lq"],
        "hbeta": [float(to_np(v)) for v in getattr(h, "beta", [])],
        "rng": repr(st.get("rng_state")),
    }


def digest_equal(a, b):
    if a["iteration"] != b["iteration"] or a["beta"] != b["beta"] or a["hbeta"] != b["hbeta"] or a["rng"] != b["rng"]:
        return False
    return all(np.array_equal(a[k], b[k], equal_nan=True) for k in ("x", "ll", "lq"))


def run_case(case):
    if case.get("kind") == "flowprec":
        return flowprec_case(case)
    from collections import Counter

    from aspire import Aspire

    counters = Counter({k: 0 for k in REQUIRED_COUNTERS})
    viol = []
    g = np.random.default_rng(case["seed"])
    cfg = gen_cfg(g, case["k"])
    shown = {k: cfg.get(k) for k in ("sampler", "xp", "dtype", "n", "opts", "precond", "ckpt_every", "kernel_steps", "n_final_steps")}
    where = f"{shown}"
    tol = 1e-6 if cfg["xp"] == "torch" else 0.0
    counters["configurations"] += 1
    # ---- reference run (callback route collects every payload)
    R = recorded.record(cfg)
    if R.exc is not None:
        raise R.exc
    ref_payload = {}
    for p in R.payloads:  # the last iteration is checkpointed twice when the run ends with an enlargement
        ref_payload.setdefault(p["iteration"], []).append(p["bytes"])
    n_calls = R.probe.n_like_calls
    T = len(R.hist["beta"])
    distinct = {}
    nontrivial = []
    for k in range(n_calls):
        counters["crash_points"] += 1
        path = tmpfile("ck.h5")
        try:
            # every third crash is an interruption that is not an Exception subclass (Ctrl-C like)
            probe = Probe(Target.from_desc(cfg["target"]), fault_like_at=k, fault_exc=InjectedInterrupt if k % 3 == 2 else InjectedFault)
            F = recorded.record(cfg, probe=probe, with_callback=False, ckpt_path=path)
            if F.exc is None:
                viol.append({"mech": "C11/fault-not-reached", "detail": f"{where}: call index {k} of {n_calls} never executed in the faulted run (run not deterministic up to the crash)"})
                continue
            if not isinstance(F.exc, (InjectedFault, InjectedInterrupt)):
                raise F.exc
            b = load_file_payload(path)
            if b is None:
                counters["crash_before_first_checkpoint"] += 1
                continue
            counters["crash_points_after_checkpoint"] += 1
            dg = state_digest(b)
            it = dg["iteration"]
            if it not in ref_payload:
                viol.append({"mech": "C11/checkpoint-at-unexpected-iteration", "detail": f"{where}: crash at call {k}: file holds iteration {it}, reference produced {sorted(ref_payload)}"})
                continue
            if not any(digest_equal(dg, state_digest(rb)) for rb in ref_payload[it]):
                viol.append({"mech": "C11/run-not-deterministic-up-to-crash", "detail": f"{where}: crash at call {k}: checkpoint of iteration {it} differs from the one the uninterrupted run produced"})
                continue
            nontrivial.append(f"{cfg['sampler']}|{cfg['xp']}|{cfg['sched']}|{cfg['pmode']}|c{cfg['ckpt_every']}|nf{'n_final_samples' in cfg['opts']}|k{k}")
            if it in distinct:
                continue
            distinct[it] = k
            # ---- resume by four routes from the file this crashed run left behind
            for route in ("bytes", "dict", "path", "resume_from_file"):
                counters["resumes"] += 1
                counters[f"routes_{route}"] += 1
                rng2 = np.random.default_rng(987654 + k)
                t2 = Target.from_desc(cfg["target"])
                probe2 = Probe(t2)
                if route == "resume_from_file":
                    a2 = Aspire.resume_from_file(path, log_likelihood=probe2.log_likelihood, log_prior=probe2.log_prior)
                    src = None
                else:
                    _, a2, probe2 = recorded.build(cfg, probe=probe2)
                    live = getattr(F.sampler, "last_checkpoint_state", None)  # the dictionary object of the interrupted run itself
                    src = {"bytes": b, "dict": live if live is not None else pickle.loads(b), "path": path}[route]
                # a private copy of the file per route so that routes do not interfere
                RR = recorded.record(cfg, aspire=a2, probe=probe2, rng=rng2, with_callback=False, resume_from=src)
                tag = f"{where} [crash at likelihood call {k}/{n_calls}, checkpoint of iteration {it}/{T}, route {route}]"
                if RR.exc is not None:
                    import traceback

                    tb = traceback.extract_tb(RR.exc.__traceback__)
                    fr = [f for f in tb if "/aspire/" in f.filename]
                    loc = f"{fr[-1].filename.split('/aspire/')[-1]}:{fr[-1].name}" if fr else "?"
                    viol.append({"mech": f"C11/resume-raises/{route}", "detail": f"{tag}: {type(RR.exc).__name__} at {loc}: {str(RR.exc)[:200]}"})
                    continue
                d = recorded.same_runs(R, RR, tol=tol)
                cat = {"beta": "schedule", "stored": "populations", "log_evidence": "evidence", "final": "final"}
                if d:
                    kinds = "+".join(sorted({cat.get(x.split(" ")[0], "history") for x in d}))
                    viol.append({"mech": f"C11/resumed-run-differs/{kinds}", "detail": f"{tag}: {d[:4]}"})
                    continue
                if route == "bytes":
                    continue
                # ---- the continuation is interrupted as well, and the user continues once more from the very same source (the same
                #      dictionary object, the same path, the same file through the constructor): a checkpoint source is an input, using
                #      it must not use it up
                n2 = probe2.n_like_calls
                if n2 < 2:
                    continue
                k2 = max(1, int(0.6 * n2))
                for attempt in ("interrupted", "again"):
                    t3 = Target.from_desc(cfg["target"])
                    probe3 = Probe(t3, fault_like_at=k2, fault_exc=InjectedInterrupt if k % 2 else InjectedFault) if attempt == "interrupted" else Probe(t3)
                    if route == "resume_from_file":
                        a3 = Aspire.resume_from_file(path, log_likelihood=probe3.log_likelihood, log_prior=probe3.log_prior)
                    else:
                        _, a3, probe3 = recorded.build(cfg, probe=probe3)
                    R3 = recorded.record(cfg, aspire=a3, probe=probe3, rng=np.random.default_rng(555 + k), with_callback=False, resume_from=src)
                    if attempt == "interrupted":
                        continue
                    counters["second_continuations_from_the_same_source"] += 1
                    tag3 = f"{tag} [continuation interrupted at its likelihood call {k2}/{n2}, then continued again from the same {route} source]"
                    if R3.exc is not None:
                        viol.append({"mech": f"C11/second-resume-from-same-source-raises/{route}", "detail": f"{tag3}: {type(R3.exc).__name__}: {str(R3.exc)[:200]}"})
                        continue
                    d3 = recorded.same_runs(R, R3, tol=tol)
                    if d3:
                        kinds = "+".join(sorted({cat.get(x.split(" ")[0], "history") for x in d3}))
                        viol.append({"mech": f"C11/second-resume-from-same-source-differs/{route}/{kinds}", "detail": f"{tag3}: {d3[:4]}"})
        finally:
            rm_tmp(path)
    seen = {}
    for v in viol:
        seen.setdefault(v["mech"], dict(v, count=0))["count"] += 1
    return {
        "viol": list(seen.values()),
        "counters": dict(counters),
        "nontrivial": nontrivial,
        "sample": {"cfg": shown, "likelihood_calls": n_calls, "iterations": T, "checkpoints_resumed": sorted(distinct), "beta": R.hist["beta"]},
    }
