"""C16 - slicing, concatenating, pickling and dict-converting samples keep rows aligned.

Stateful reference-model monitor: a seeded random sequence of select / partition+concatenate /
concatenate / pickle / to_dict->from_dict operations is applied to a real sample set and, in
lock step, to a plain numpy-array model; after every operation every per-sample field (incl.
log_w / weights), the carried evidence, the namespace and the dtype are compared.
"""
from __future__ import annotations

import pickle

import numpy as np

from .. import env
from ..harness import ns_name, to_np

ID = "C16"
LEVEL = "exploration"
RULE = (
    "cases = seeded operation sequences (<=12 ops) over {int, slice(+step, negative where the namespace allows), boolean mask "
    "(numpy or native), integer array with repeats, partition+concatenate, concatenate with a fresh piece, pickle, to_dict(flat/nested)->from_dict} "
    "x {BaseSamples, Samples, SMCSamples} x 3 namespaces x 2 widths x 2^3 optional-field subsets; non-trivial = sequence with >=3 judged "
    "operations of >=2 different kinds on >=2 rows; distinct = distinct (class, namespace, dtype, fields, op-kind sequence)"
)
ASSUMPTIONS = [
    "empty selections are generated but only recorded (a weighted set with no rows has no defined weights)",
    "negative-step slices are only generated for numpy (torch and jax... torch rejects them)",
    "SMCSamples.concatenate: beta / evidence of the result are recorded, not judged (pieces may legitimately differ)",
]
REQUIRED_COUNTERS = ["ops_judged", "select_judged", "concat_judged", "pickle_judged", "dict_judged", "evidence_carried_checked"]

CLASSES = ["BaseSamples", "Samples", "SMCSamples"]


def cases(tier, seed):
    n = {"quick": 40, "thorough": 1200}[tier]
    per = {"quick": 8, "thorough": 16}[tier]
    out = []
    k = 0
    for b in range(n):
        for xp in ("numpy", "torch", "jax"):
            if tier == "quick" and xp != "numpy" and b >= 8:
                continue
            out.append({"xp": xp, "seed": [seed, 16, k], "n_seq": per if xp != "jax" else max(2, per // 4)})
            k += 1
    return out


class Model:
    def __init__(self, cls, x, ll, lp, lq, params, dtype, beta=None, le=None, lee=None):
        self.cls = cls
        self.x, self.ll, self.lp, self.lq = x, ll, lp, lq
        self.params = params
        self.dtype = dtype
        self.beta, self.le, self.lee = beta, le, lee

    @property
    def weighted(self):
        return self.cls == "Samples" and all(a is not None for a in (self.ll, self.lp, self.lq))

    def log_w(self):
        return (self.ll + self.lp - self.lq).astype(self.dtype) if self.weighted else None

    def select(self, idx):
        f = lambda a: None if a is None else a[idx]  # noqa: E731
        return Model(self.cls, self.x[idx], f(self.ll), f(self.lp), f(self.lq), self.params, self.dtype, self.beta, self.le, self.lee)


def build(cls_name, xp, m: Model):
    from aspire import samples as S

    C = getattr(S, cls_name)
    f = lambda a: None if a is None else xp.asarray(a)  # noqa: E731
    kw = dict(x=xp.asarray(m.x), log_likelihood=f(m.ll), log_prior=f(m.lp), log_q=f(m.lq), parameters=list(m.params), xp=xp, dtype=m.dtype)
    if cls_name == "SMCSamples":
        kw.update(beta=m.beta, log_evidence=m.le, log_evidence_error=m.lee)
    elif cls_name == "Samples" and not m.weighted and m.le is not None:
        # the kind of set the samplers return: no weights, evidence attached
        kw.update(log_evidence=m.le, log_evidence_error=m.lee)
    return C(**kw)


def same(a, b):
    if a is None or b is None:
        return a is None and b is None
    a = np.asarray(to_np(a))
    b = np.asarray(b)
    return a.shape == b.shape and np.array_equal(a.astype(float), b.astype(float), equal_nan=True)


def compare(obj, m: Model, xpn, where, viol, judge_evidence=True, judge_weights=True):
    bad = []
    if type(obj).__name__ != m.cls:
        bad.append(f"class {type(obj).__name__} != {m.cls}")
    if ns_name(obj.xp) != xpn:
        bad.append(f"namespace {ns_name(obj.xp)} != {xpn}")
    for name, ref in (("x", m.x), ("log_likelihood", m.ll), ("log_prior", m.lp), ("log_q", m.lq)):
        got = getattr(obj, name)
        if not same(got, ref):
            bad.append(f"field {name} differs from the reference model (got {None if got is None else tuple(np.shape(to_np(got)))}, model {None if ref is None else ref.shape})")
        elif got is not None and str(to_np(got).dtype) != m.dtype:
            bad.append(f"field {name} dtype {to_np(got).dtype} != {m.dtype}")
    if list(obj.parameters) != list(m.params):
        bad.append(f"parameters {obj.parameters} != {m.params}")
    if m.weighted and judge_weights and np.ndim(m.x) == 2 and m.x.shape[0] > 0:
        lw = m.log_w()
        got = getattr(obj, "log_w", None)
        if got is None or not np.allclose(np.asarray(to_np(got), dtype=float), lw.astype(float), rtol=4 * float(np.finfo(m.dtype).eps), atol=0, equal_nan=True):
            bad.append("log_w differs from ll+lp-lq of the selected rows")
        gw = getattr(obj, "weights", None)
        with np.errstate(over="ignore"):
            rw = np.exp(lw.astype(float))
        if gw is None or not np.allclose(np.asarray(to_np(gw), dtype=float), rw, rtol=64 * float(np.finfo(m.dtype).eps), atol=1e-300, equal_nan=True):
            bad.append("weights differ from exp(log_w) of the selected rows")
    if judge_evidence and m.cls in ("Samples", "SMCSamples"):
        for name, ref in (("log_evidence", m.le), ("log_evidence_error", m.lee)):
            got = getattr(obj, name, None)
            if ref is None:
                if got is not None and m.cls == "SMCSamples":
                    bad.append(f"{name} appeared ({got}) though the parent had none")
            else:
                if got is None or not np.isclose(float(to_np(got)), float(ref), rtol=1e-6, atol=0, equal_nan=True):
                    bad.append(f"{name}={None if got is None else float(to_np(got))} not carried from parent ({float(ref)})")
    if m.cls == "SMCSamples":
        if (obj.beta is None) != (m.beta is None) or (m.beta is not None and float(obj.beta) != float(m.beta)):
            bad.append(f"beta {obj.beta} != {m.beta}")
    for b in bad:
        key = b.split(" ")[0].split("=")[0] + ("-" + b.split(" ")[1] if b.startswith("field") else "")
        viol.append({"mech": f"C16/{where}/{key}", "detail": f"{where}: {b}"})
    return not bad


def gen_index(g, n, xpn, xp):
    kinds = ["slice", "mask_np", "mask_native", "intarr", "slice_step", "int", "empty"]
    if xpn == "numpy":
        kinds.append("slice_neg")
    kind = kinds[g.integers(len(kinds))]
    if kind == "int":
        i = int(g.integers(-n, n))
        return kind, i, i
    if kind == "slice":
        a, b = sorted(g.integers(0, n + 1, 2))
        if a == b:
            b = min(n, a + 1)
            a = max(0, b - 1)
        return kind, slice(int(a), int(b)), slice(int(a), int(b))
    if kind == "slice_step":
        st = int(g.integers(2, 4))
        return kind, slice(None, None, st), slice(None, None, st)
    if kind == "slice_neg":
        return kind, slice(None, None, -1), slice(None, None, -1)
    if kind in ("mask_np", "mask_native"):
        mk = g.random(n) < 0.6
        if not mk.any():
            mk[g.integers(n)] = True
        return kind, (mk if kind == "mask_np" else xp.asarray(mk)), mk
    if kind == "intarr":
        ia = g.integers(0, n, int(g.integers(1, 2 * n + 1)))
        return kind, (ia if g.random() < 0.5 else xp.asarray(ia)), ia
    return "empty", slice(0, 0), slice(0, 0)


def fresh_model(g, cls_name, dtype, n=None, d=None, fields=None, params=None):
    n = n or int(g.integers(2, 40))
    d = d or int(g.integers(1, 4))
    x = (g.standard_normal((n, d)) * 10 ** g.uniform(-1, 2)).astype(dtype)
    # unique rows make misalignment visible
    mk = lambda s: (g.standard_normal(n) * s).astype(dtype)  # noqa: E731
    fields = fields if fields is not None else [bool(g.random() < 0.75) for _ in range(3)]
    ll = mk(5.0) if fields[0] else None
    lp = mk(2.0) if fields[1] else None
    lq = mk(3.0) if fields[2] else None
    params = params or [f"q{j}" for j in range(d)]
    m = Model(cls_name, x, ll, lp, lq, params, dtype)
    if cls_name == "SMCSamples":
        m.beta = float(g.choice([0.0, 0.25, 1.0]))
        if g.random() < 0.5:
            # zero is a value like any other (log Z = 0 for a normalised target, error 0 before the first iteration)
            m.le = float(g.normal()) if g.random() < 0.7 else 0.0
            m.lee = float(abs(g.normal()) * 0.1) if g.random() < 0.7 else 0.0
    elif cls_name == "Samples" and not m.weighted and g.random() < 0.6:
        m.le = float(g.normal()) if g.random() < 0.7 else 0.0
        m.lee = float(abs(g.normal()) * 0.1) if g.random() < 0.7 else 0.0
    return m, fields


def run_sequence(g, xpn, counters, viol):
    from aspire import samples as S

    xp = env.xp_of(xpn)
    cls_name = CLASSES[g.integers(3)]
    dtype = str(g.choice(["float64", "float32"]))
    m, fields = fresh_model(g, cls_name, dtype)
    s = build(cls_name, xp, m)
    if m.weighted:
        m.le = float(to_np(s.log_evidence))
        m.lee = float(to_np(s.log_evidence_error))
    compare(s, m, xpn, "construct", viol, judge_evidence=(cls_name == "SMCSamples" or (cls_name == "Samples" and not m.weighted)))
    n_ops = int(g.integers(3, 13))
    kinds_done = []
    judged = 0
    for _ in range(n_ops):
        n = m.x.shape[0] if np.ndim(m.x) == 2 else 0
        if n < 2:
            break
        op = str(g.choice(["select", "select", "partition", "concat", "pickle", "dict", "convert"]))
        if op == "select":
            kind, idx_obj, idx_model = gen_index(g, n, xpn, xp)
            if kind == "empty":
                try:
                    s[idx_obj]
                    counters["empty_selection_recorded"] += 1
                except Exception:
                    counters["empty_selection_raised_recorded"] += 1
                continue
            s2 = s[idx_obj]
            m2 = m.select(idx_model)
            if kind == "int":
                # a single row: judged on the per-sample fields only
                ok = all(same(getattr(s2, a), r) for a, r in (("x", m2.x), ("log_likelihood", m2.ll), ("log_prior", m2.lp), ("log_q", m2.lq)))
                counters["int_index_judged"] += 1
                if not ok:
                    viol.append({"mech": "C16/select-int/field", "detail": f"{cls_name} {xpn}: s[{idx_model}] fields differ from row {idx_model}"})
                # the single-row set itself must survive pickling and the dictionary round trip unchanged (shapes included)
                import pickle as _pk

                trips = [("pickle", lambda o: _pk.loads(_pk.dumps(o)))]
                for flat in (True, False):
                    trips.append((f"dict(flat={flat})", lambda o, flat=flat: type(o).from_dict(o.to_dict(flat=flat))))
                for label, fn in trips:
                    counters["single_row_roundtrips"] += 1
                    try:
                        r2 = fn(s2)
                    except Exception as exc:  # noqa: BLE001
                        counters["single_row_roundtrip_raised_recorded"] += 1
                        continue
                    for a_ in ("x", "log_likelihood", "log_prior", "log_q"):
                        v0, v1 = getattr(s2, a_), getattr(r2, a_)
                        if not same(v1, None if v0 is None else np.asarray(to_np(v0))):
                            viol.append({"mech": f"C16/single-row-{label.split('(')[0]}-roundtrip/field-{a_}", "detail": f"{cls_name} {xpn}: s[{idx_model}] then {label}: {a_} {None if v0 is None else np.shape(to_np(v0))} -> {None if v1 is None else np.shape(to_np(v1))}"})
                continue
            ok = compare(s2, m2, xpn, f"select-{kind.split('_')[0]}", viol)
            counters["select_judged"] += 1
            if n >= 2 and g.random() < 0.5:
                # a piece of exactly one row (two-dimensional, taken by a slice, a one-hot mask or a length-one index array) is a
                # sample set like any other: it must survive the dictionary / pickle round trips and a concatenation of one piece
                import pickle as _pk

                j = int(g.integers(n))
                how = int(g.integers(3))
                if how == 0:
                    piece = s[j : j + 1]
                elif how == 1:
                    mk_ = np.zeros(n, dtype=bool)
                    mk_[j] = True
                    piece = s[xp.asarray(mk_)]
                else:
                    piece = s[xp.asarray(np.array([j]))]
                mp = m.select(slice(j, j + 1))
                C1 = getattr(S, cls_name)
                for label, fn, je in (("dict-flat", lambda o: C1.from_dict(o.to_dict(flat=True)), True), ("dict-nested", lambda o: C1.from_dict(o.to_dict(flat=False)), True),
                                      ("pickle", lambda o: _pk.loads(_pk.dumps(o)), True), ("concat-of-one-piece", lambda o: C1.concatenate([o]), False)):
                    counters["one_row_pieces_roundtripped"] += 1
                    try:
                        r1 = fn(piece)
                    except Exception as exc:  # noqa: BLE001
                        viol.append({"mech": f"C16/one-row-piece-{label}-raises", "detail": f"{cls_name} {xpn}: {type(exc).__name__}: {str(exc)[:160]}"})
                        continue
                    if label.startswith("concat") and cls_name == "SMCSamples":
                        r1.beta = mp.beta  # concatenation of SMC populations does not carry the temperature (recorded elsewhere, not judged)
                    compare(r1, mp, xpn, f"one-row-piece-{label}", viol, judge_evidence=je and cls_name != "BaseSamples")
            if m.cls in ("Samples", "SMCSamples") and m.le is not None:
                counters["evidence_carried_checked"] += 1
            s, m = s2, m2
            kinds_done.append(kind)
        elif op == "partition":
            k = int(g.integers(2, 5))
            cuts = sorted(set(int(c) for c in g.integers(1, n, k - 1)))
            edges = [0] + cuts + [n]
            pieces = [s[slice(a, b)] for a, b in zip(edges[:-1], edges[1:])]
            C = getattr(S, cls_name)
            s2 = C.concatenate(pieces)
            m2 = Model(m.cls, m.x, m.ll, m.lp, m.lq, m.params, m.dtype, None, None, None)
            if m.weighted:
                # evidence of the whole is a function of the rows: recomputed == original when the original was computed
                pass
            compare(s2, m2, xpn, "partition-concat", viol, judge_evidence=False)
            if cls_name == "SMCSamples":
                counters["smc_concat_beta_lost_recorded"] += int(s2.beta is None and m.beta is not None)
                s2.beta, s2.log_evidence, s2.log_evidence_error = m.beta, m.le, m.lee
                m2.beta, m2.le, m2.lee = m.beta, m.le, m.lee
            elif m.weighted:
                m2.le = float(to_np(s2.log_evidence))
                m2.lee = float(to_np(s2.log_evidence_error))
            counters["concat_judged"] += 1
            s, m = s2, m2
            kinds_done.append("partition")
        elif op == "concat":
            d = m.x.shape[1]
            mb, _ = fresh_model(g, cls_name, dtype, d=d, fields=[m.ll is not None, m.lp is not None, m.lq is not None], params=m.params)
            sb = build(cls_name, xp, mb)
            C = getattr(S, cls_name)
            order = [(s, m), (sb, mb)] if g.random() < 0.5 else [(sb, mb), (s, m)]
            s2 = C.concatenate([o[0] for o in order])
            cat = lambda a, b: None if a is None else np.concatenate([a, b])  # noqa: E731
            A, B = order[0][1], order[1][1]
            m2 = Model(m.cls, np.concatenate([A.x, B.x]), cat(A.ll, B.ll), cat(A.lp, B.lp), cat(A.lq, B.lq), m.params, m.dtype)
            compare(s2, m2, xpn, "concat", viol, judge_evidence=False)
            if cls_name == "SMCSamples":
                s2.beta = m2.beta = m.beta
            elif m2.weighted:
                m2.le = float(to_np(s2.log_evidence))
                m2.lee = float(to_np(s2.log_evidence_error))
            counters["concat_judged"] += 1
            s, m = s2, m2
            kinds_done.append("concat")
        elif op == "convert":
            # same-namespace conversion (and deepcopy): an identity on every field, including carried evidence
            import copy as _copy

            how = str(g.choice(["to_namespace", "to_numpy", "deepcopy"])) if xpn == "numpy" else str(g.choice(["to_namespace", "deepcopy"]))
            s2 = s.to_namespace(xp) if how == "to_namespace" else (s.to_numpy() if how == "to_numpy" else _copy.deepcopy(s))
            mm = m if not (cls_name == "SMCSamples" and how == "to_namespace") else Model(m.cls, m.x, m.ll, m.lp, m.lq, m.params, m.dtype, None, None, None)
            if cls_name == "SMCSamples" and how == "to_namespace":
                # BaseSamples.to_namespace does not carry the SMC-only attributes (recorded in C15's assumptions)
                counters["smc_to_namespace_attrs_lost_recorded"] += 1
                compare(s2, mm, xpn, f"convert-{how}", viol, judge_evidence=False)
                s2.beta, s2.log_evidence, s2.log_evidence_error = m.beta, m.le, m.lee
            else:
                compare(s2, m, xpn, f"convert-{how}", viol)
            counters["convert_judged"] += 1
            s = s2
            kinds_done.append("convert")
        elif op == "pickle":
            s2 = pickle.loads(pickle.dumps(s))
            compare(s2, m, xpn, "pickle", viol)
            counters["pickle_judged"] += 1
            s = s2
            kinds_done.append("pickle")
        else:
            flat = bool(g.random() < 0.5)
            C = getattr(S, cls_name)
            dct = s.to_dict(flat=flat)
            counters["dict_attempted"] += 1
            try:
                s2 = C.from_dict(dct)
            except TypeError as exc:
                viol.append({"mech": f"C16/dict-roundtrip-raises/{cls_name}", "detail": f"{cls_name}.from_dict(to_dict(flat={flat})) raised {type(exc).__name__}: {str(exc)[:200]}"})
                counters["dict_judged"] += 1
                kinds_done.append("dict")
                continue
            ok = compare(s2, m, xpn, "dict", viol)
            counters["dict_judged"] += 1
            s = s2
            if not ok and m.cls == "Samples" and getattr(s2, "log_evidence", None) is not None:
                # re-synchronise the model so one defect is not reported again by every later operation
                m.le, m.lee = float(to_np(s2.log_evidence)), float(to_np(s2.log_evidence_error))
            kinds_done.append("dict")
        judged += 1
        counters["ops_judged"] += 1
    sig = f"{cls_name}|{xpn}|{dtype}|{fields}|{'>'.join(kinds_done)}"
    nontrivial = judged >= 3 and len(set(kinds_done)) >= 2
    return sig, nontrivial, kinds_done


def run_case(case):
    from collections import Counter

    counters = Counter({k: 0 for k in REQUIRED_COUNTERS})
    viol = []
    g = np.random.default_rng(case["seed"])
    nontrivial = set()
    sample = None
    for _ in range(case["n_seq"]):
        sig, nt, kinds = run_sequence(g, case["xp"], counters, viol)
        if nt:
            nontrivial.add(sig)
            sample = sample or {"sequence": sig}
    seen = {}
    for v in viol:
        seen.setdefault(v["mech"], dict(v, count=0))["count"] += 1
    return {"viol": list(seen.values()), "counters": dict(counters), "nontrivial": sorted(nontrivial), "sample": sample}
