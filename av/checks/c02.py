"""C02 - weights, evidence and ESS are exact functionals of the per-sample log-densities.

Monitor: icontract post-condition on the real `Samples.compute_weights` (evaluated on every
construction), plus direct observation of efficiency / scaled_weights / rejection_sample and the
`utils.effective_sample_size` / `utils.logsumexp` helpers.  Oracle: extended-precision
(np.longdouble) reference functionals of the arrays *as stored*.
"""
from __future__ import annotations

import math

import numpy as np

from .. import env
from ..harness import RngProxy, to_np

ID = "C02"
LEVEL = "exploration"
RULE = (
    "cases = seeded batches of log-density vectors (N in [2,5000]; magnitudes 0,+-7e2,+-1e4,+-1e5; spreads 1e-6..1e4; "
    "gaussian/heavy-tail/bimodal/dominant/ties/constant; -inf subsets) x {numpy,torch,jax} x {float32,float64}; "
    "a vector is non-trivial when its weights are not all equal; distinct = distinct (N, shape, magnitude, spread-decade, "
    "ninf, namespace, dtype) signatures"
)
ASSUMPTIONS = [
    "reference functionals are computed in np.longdouble from the stored log_likelihood/log_prior/log_q/log_w arrays",
    "tolerances follow DESIGN 2.5: c*eps(dtype of the observed array)*scale",
    "rejection sampling: draws within 8 ulp of the acceptance boundary are skipped (counted)",
    "utils.effective_sample_size is judged with an extra 16*eps*max|log w| relative allowance (it is not max-shifted; the ESS stored on Samples is, and is judged without it)",
]
REQUIRED_COUNTERS = ["contract_evals", "rejection_checked", "ess_helper_checked"]

MAGS = [0.0, 7e2, -7e2, 1e4, -1e4, 1e5, -1e5, 30.0, -60.0]
KINDS = ["gauss", "heavy", "bimodal", "dominant", "ties", "constant"]


def cases(tier, seed):
    n_batches = {"quick": 48, "thorough": 1600}[tier]
    per = {"quick": 64, "thorough": 128}[tier]
    out = []
    k = 0
    for b in range(n_batches):
        for xp in ("numpy", "torch", "jax"):
            # torch/jax batches are thinner in quick (import cost dominates)
            if tier == "quick" and xp != "numpy" and b >= 12:
                continue
            for dt in ("float64", "float32"):
                out.append({"xp": xp, "dtype": dt, "seed": [seed, 2, k], "n_vec": per})
                k += 1
    return out


JAX_SIZES = [2, 3, 17, 256, 5000]


def gen_vector(g, dt, palette=None):
    if palette:
        n = int(palette[g.integers(len(palette))])
    else:
        n = int(np.exp(g.uniform(np.log(2), np.log(5000))))
    n = max(2, n)
    kind = KINDS[g.integers(len(KINDS))]
    mag = MAGS[g.integers(len(MAGS))]
    spread = 10 ** g.uniform(-6, 4)
    if kind == "gauss":
        z = g.standard_normal(n)
    elif kind == "heavy":
        z = np.clip(g.standard_cauchy(n), -1e3, 1e3)
    elif kind == "bimodal":
        z = np.where(g.random(n) < 0.5, -3.0, 3.0) + 0.3 * g.standard_normal(n)
    elif kind == "dominant":
        z = g.standard_normal(n)
        z[g.integers(n)] += 50.0
    elif kind == "ties":
        z = np.round(g.standard_normal(n) * 2) / 2
    else:
        z = np.zeros(n)
    logw = mag + spread * z
    lq = g.normal(0, 5, n) + g.choice([0.0, 50.0, -200.0])
    lp = g.normal(0, 3, n) + g.choice([0.0, -10.0, 300.0])
    ll = logw - lp + lq
    ninf = 0
    r = g.random()
    if r < 0.3 and n > 2:
        frac = g.choice([0.1, 0.5, 0.9])
        m = g.random(n) < frac
        m[g.integers(n)] = False  # keep at least one finite
        which = g.random(n) < 0.5
        ll = np.where(m & which, -np.inf, ll)
        lp = np.where(m & ~which, -np.inf, lp)
        ninf = int(m.sum())
    sig = f"{n}|{kind}|{mag}|{int(np.floor(np.log10(spread)))}|{min(ninf,1)}"
    return ll.astype(dt), lp.astype(dt), lq.astype(dt), sig, kind


# ---------------------------------------------------------------- reference functionals


def ref_functionals(logw):
    lw = np.asarray(logw, dtype=np.longdouble)
    n = lw.shape[0]
    c = np.max(lw)
    u = np.exp(lw - c)
    su = np.sum(u)
    logz = c + np.log(su) - np.log(np.longdouble(n))
    ess = su * su / np.sum(u * u)
    ubar = su / n
    rel = np.sqrt(np.sum((u - ubar) ** 2) / (np.longdouble(n) * (n - 1))) / ubar
    return {"logz": float(logz), "ess": float(ess), "rel": float(rel), "c": float(c), "scaled": np.asarray(u, dtype=float)}


STATE = {"viol": [], "evals": 0}


def _eps(arr):
    return float(np.finfo(np.float32 if "32" in str(arr.dtype) else np.float64).eps)


def check_object(s, where, skip_evidence=False):
    """Judge one Samples object after compute_weights (post-state).  skip_evidence: a selection carries its parent's
    evidence (C16), so only the functionals of its own weights are judged."""
    v = STATE["viol"]
    ll, lp, lq = (np.asarray(to_np(a), dtype=float) for a in (s.log_likelihood, s.log_prior, s.log_q))
    lw = np.asarray(to_np(s.log_w), dtype=float)
    n = lw.shape[0]
    eps = _eps(to_np(s.log_w))
    # (1) elementwise identity
    with np.errstate(invalid="ignore"):
        ref_lw = ll + lp - lq
    scale = np.maximum.reduce([np.abs(np.nan_to_num(ll, neginf=0)), np.abs(np.nan_to_num(lp, neginf=0)), np.abs(lq), np.ones(n)])
    fin = np.isfinite(ref_lw)
    bad_inf = (~fin) & ~(np.isneginf(lw) & np.isneginf(ref_lw))
    if bad_inf.any() or (np.abs(lw[fin] - ref_lw[fin]) > 4 * eps * scale[fin]).any():
        i = int(np.argmax(np.where(fin, np.abs(lw - np.where(fin, ref_lw, 0)) / scale, 1e300 * bad_inf)))
        v.append({"mech": "C02/log_w-not-ll+lp-lq", "detail": f"{where}: i={i} log_w={lw[i]!r} ref={ref_lw[i]!r} n={n}"})
    if not np.isfinite(lw).any():
        return  # every weight is zero: evidence and ESS are not defined (a selection made by this harness, not a generated vector)
    R = ref_functionals(lw)
    # (2) log evidence
    lz = R["logz"] if skip_evidence else float(to_np(s.log_evidence))
    tol = eps * (32 * (abs(R["c"]) + 1) + 64 * math.sqrt(n))
    if not (abs(lz - R["logz"]) <= tol):
        v.append({"mech": "C02/log_evidence-wrong", "detail": f"{where}: log_evidence={lz!r} ref={R['logz']!r} tol={tol:.3g} n={n} max={R['c']}"})
    # (3) ESS and bounds
    ess = float(to_np(s.effective_sample_size))
    rt = eps * (64 + 64 * math.sqrt(n))
    if not (abs(ess - R["ess"]) <= rt * R["ess"]):
        v.append({"mech": "C02/ess-wrong", "detail": f"{where}: ess={ess!r} ref={R['ess']!r} n={n}"})
    if not (1 - rt <= ess <= n * (1 + rt)):
        v.append({"mech": "C02/ess-out-of-range", "detail": f"{where}: ess={ess!r} n={n}"})
    eff = float(to_np(s.efficiency))
    if not (abs(eff - R["ess"] / n) <= rt * R["ess"] / n):
        v.append({"mech": "C02/efficiency-wrong", "detail": f"{where}: efficiency={eff!r} ref={R['ess']/n!r}"})
    # (4) scaled weights
    sw = np.asarray(to_np(s.scaled_weights), dtype=float)
    tiny = 1.2e-38 if eps > 1e-10 else 2.3e-308  # smallest normal: jax/torch may flush denormals
    xarg = np.where(np.isfinite(lw), np.abs(lw - R["c"]), 0.0)
    if sw.shape != (n,) or (np.abs(sw - R["scaled"]) > eps * (16 + 4 * xarg) * R["scaled"] + 4 * tiny).any():
        v.append({"mech": "C02/scaled_weights-wrong", "detail": f"{where}: max abs diff {np.max(np.abs(sw-R['scaled']))!r}"})
    if skip_evidence:
        return
    # (5) relative error of the evidence (shift-invariant statistic)
    rel = float(to_np(s.log_evidence_error))
    rtol_rel = 256 * eps * (1 / math.sqrt(n - 1) + R["rel"]) + 1e-300
    if not np.isfinite(rel):
        v.append(
            {
                "mech": "C02/log_evidence_error-nonfinite-outside-exp-range",
                "detail": f"{where}: log_evidence_error={rel!r} ref={R['rel']!r} max log_w={R['c']!r} n={n}",
            }
        )
    elif not (abs(rel - R["rel"]) <= rtol_rel):
        v.append({"mech": "C02/log_evidence_error-wrong", "detail": f"{where}: got={rel!r} ref={R['rel']!r} tol={rtol_rel:.3g} max={R['c']} n={n}"})
    # absolute-scale evidence / error only judged inside the range of exp()
    lim = 80.0 if eps > 1e-10 else 690.0
    finite_lw = lw[np.isfinite(lw)]
    if np.max(np.abs(finite_lw)) < lim and abs(R["logz"]) < lim:
        ev = float(to_np(s.evidence))
        if not (abs(ev - math.exp(R["logz"])) <= 1024 * eps * (1 + abs(R["c"])) * math.exp(R["logz"])):
            v.append({"mech": "C02/evidence-wrong", "detail": f"{where}: evidence={ev!r} ref={math.exp(R['logz'])!r}"})


def _post_weights(self):
    STATE["evals"] += 1
    check_object(self, "compute_weights")
    return True


class PostBroken(AssertionError):
    pass


def install_contract():
    import icontract

    from aspire.samples import Samples

    if getattr(Samples.compute_weights, "_av_wrapped", False):
        return
    wrapped = icontract.ensure(_post_weights, error=PostBroken)(Samples.compute_weights)
    wrapped._av_wrapped = True
    Samples.compute_weights = wrapped


def run_case(case):
    install_contract()
    from aspire import utils as U
    from aspire.samples import Samples

    xp = env.xp_of(case["xp"])
    dt = case["dtype"]
    g = np.random.default_rng(case["seed"])
    STATE["viol"] = []
    STATE["evals"] = 0
    counters = {"selections_judged": 0, "rechecked_after_readonly_ops": 0, "recomputed_in_place": 0, "vectors": 0, "rejection_checked": 0, "rejection_border_skipped": 0, "ess_helper_checked": 0, "outside_exp_range": 0, "with_neginf": 0}
    nontrivial = set()
    sample = None
    for j in range(case["n_vec"]):
        ll, lp, lq, sig, kind = gen_vector(g, dt, JAX_SIZES if case["xp"] == "jax" else None)
        n = ll.shape[0]
        x = g.standard_normal((n, 2)).astype(dt)
        variants = [("orig", np.arange(n), 0.0)]
        if j % 4 == 0:
            variants.append(("perm", g.permutation(n), 0.0))
        if j % 4 == 1:
            variants.append(("shift", np.arange(n), float(g.choice([3.0, -40.0, 1e3, -2e4]))))
        for name, idx, c in variants:
            a_ll = (ll[idx] + np.asarray(c, dtype=dt)).astype(dt)
            s = Samples(
                x=xp.asarray(x[idx]),
                log_likelihood=xp.asarray(a_ll),
                log_prior=xp.asarray(lp[idx]),
                log_q=xp.asarray(lq[idx]),
                xp=xp,
                dtype=dt,
            )
            counters["vectors"] += 1
            if str(to_np(s.log_w).dtype) != dt:
                STATE["viol"].append({"mech": "C02/dtype-changed", "detail": f"log_w dtype {to_np(s.log_w).dtype} for requested {dt}"})
        if j % 5 == 2:
            # the same object re-weighted: a log-density vector is replaced and compute_weights() called again;
            # everything must describe the *current* densities (the post-condition contract fires again)
            c2 = float(g.choice([1.5, -37.25, 250.0]))
            s.log_likelihood = s.log_likelihood + xp.asarray(np.asarray(c2, dtype=dt))
            s.compute_weights()
            counters["recomputed_in_place"] += 1
        lw = np.asarray(to_np(s.log_w), dtype=float)
        fin = lw[np.isfinite(lw)]
        if np.ptp(fin) > 0:
            nontrivial.add(f"{sig}|{case['xp']}|{dt}")
        if np.max(np.abs(fin)) > (80 if dt == "float32" else 700):
            counters["outside_exp_range"] += 1
        if np.isneginf(lw).any():
            counters["with_neginf"] += 1
        # rejection sampling through the rng proxy
        if (j % 2 == 0) if case["xp"] != "jax" else (j % 16 == 0):
            proxy = RngProxy(int(g.integers(2**31)))
            out = s.rejection_sample(rng=proxy)
            us = [d for d in proxy.draws if d["m"] == "uniform"]
            if len(us) != 1 or np.asarray(us[0]["out"]).shape != (n,):
                STATE["viol"].append({"mech": "C02/rejection-draws-unexpected", "detail": f"uniform draws seen: {[ (d['m'], np.shape(d['out'])) for d in proxy.draws]}"})
            else:
                log_u = np.log(np.asarray(us[0]["out"], dtype=float))
                thr = lw - np.max(lw)
                eps = _eps(to_np(s.log_w))
                border = np.abs(log_u - thr) <= 8 * eps * (1 + np.abs(thr))
                keep = log_u < thr
                got = np.asarray(to_np(out.x), dtype=float)
                xs = np.asarray(to_np(s.x), dtype=float)
                if border.any():
                    counters["rejection_border_skipped"] += 1
                else:
                    counters["rejection_checked"] += 1
                    if got.shape[0] != int(keep.sum()) or not np.array_equal(got, xs[keep]):
                        STATE["viol"].append(
                            {"mech": "C02/rejection-kept-set-wrong", "detail": f"kept {got.shape[0]} rows, reference keeps {int(keep.sum())} of {n}"}
                        )
                    else:
                        gl = np.asarray(to_np(out.log_likelihood), dtype=float)
                        if not np.array_equal(gl, np.asarray(to_np(s.log_likelihood), dtype=float)[keep]):
                            STATE["viol"].append({"mech": "C02/rejection-fields-misaligned", "detail": "log_likelihood rows differ from the kept rows"})
            # operations that only read the weights (rejection sampling of the set and of a selection of it, the derived
            # properties evaluated above) must leave the set as compute_weights() left it
            if n >= 4:
                s[1 : 1 + n // 2].rejection_sample(rng=RngProxy(int(g.integers(2**31))))
            # selections are weighted sets too: their weights, ESS, efficiency and scaled weights are functionals of the
            # selected rows (index arrays with repeats, of the parent's length and of other lengths, permutations, masks)
            if n >= 3:
                for kind_i, idx in (
                    ("bootstrap of the same length", g.integers(0, n, n)),
                    ("repeats, longer", g.integers(0, n, n + 3)),
                    ("permutation", g.permutation(n)),
                    ("mask", g.random(n) < 0.7),
                ):
                    if idx.dtype == bool and idx.sum() < 2:
                        continue
                    sel = s[idx if (j % 4) else xp.asarray(idx)]
                    b0 = len(STATE["viol"])
                    check_object(sel, f"selection ({kind_i})", skip_evidence=True)
                    for v in STATE["viol"][b0:]:
                        v["mech"] = v["mech"].replace("C02/", "C02/selection/")
                    counters["selections_judged"] += 1
            before = len(STATE["viol"])
            check_object(s, "after rejection_sample (whole set and a selection)")
            for v in STATE["viol"][before:]:
                v["mech"] = v["mech"].replace("C02/", "C02/after-read-only-operations/")
            counters["rechecked_after_readonly_ops"] += 1
        # helper functions on a raw vector
        if j % 3 == 0:
            arr = xp.asarray(lw[np.isfinite(lw)].astype(dt))
            R = ref_functionals(np.asarray(to_np(arr), dtype=float))
            m = arr.shape[0]
            eps = _eps(to_np(arr))
            e = float(to_np(U.effective_sample_size(arr)))
            counters["ess_helper_checked"] += 1
            # the helper does not max-shift: its conditioning is eps*|log w| (stated assumption)
            cmax = float(np.max(np.abs(np.asarray(to_np(arr), dtype=float))))
            if not (abs(e - R["ess"]) <= eps * (64 + 64 * math.sqrt(m) + 16 * cmax) * R["ess"]):
                STATE["viol"].append({"mech": "C02/ess-helper-wrong", "detail": f"effective_sample_size={e!r} ref={R['ess']!r} n={m}"})
            l = float(to_np(U.logsumexp(arr)))
            refl = R["logz"] + math.log(m)
            if not (abs(l - refl) <= eps * (32 * (abs(R["c"]) + 1) + 64 * math.sqrt(m))):
                STATE["viol"].append({"mech": "C02/logsumexp-wrong", "detail": f"logsumexp={l!r} ref={refl!r}"})
        if sample is None and kind != "constant":
            sample = {
                "n": int(n),
                "kind": kind,
                "sig": sig,
                "log_w_head": [float(v) for v in lw[:4]],
                "log_evidence": float(to_np(s.log_evidence)),
                "ess": float(to_np(s.effective_sample_size)),
                "log_evidence_error": float(to_np(s.log_evidence_error)),
            }
    counters["contract_evals"] = STATE["evals"]
    # de-duplicate violations per mechanism within a case, keep first witness + count
    seen = {}
    for v in STATE["viol"]:
        if v["mech"] not in seen:
            seen[v["mech"]] = dict(v, count=1)
        else:
            seen[v["mech"]]["count"] += 1
    return {"viol": list(seen.values()), "counters": counters, "nontrivial": sorted(nontrivial), "sample": sample}
