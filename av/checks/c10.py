"""C10 - cached per-particle log-densities always belong to the particle's coordinates.

At every boundary where the library hands back or records a sample set (returned samples,
every history population, every checkpoint payload, resumed runs) each row's stored
log-likelihood / log-prior / log-proposal is recomputed from that row's coordinates with the
user's functions and the proposal; the initial population is matched row by row against the
(row, log_q) pairs the proposal actually emitted.
"""
from __future__ import annotations

import numpy as np

from .. import boundary
from ..harness import to_np

ID = "C10"
LEVEL = "exploration"
RULE = (
    "runs = random targets (1-3 dims, optional periodic coordinate) x {importance, MiniPCNSMC, EmceeSMC, BlackJAXSMC, MiniPCN, Emcee} x proposals "
    "with ~0% / moderate / most draws outside the prior (rejection + multi-round top-up) x preconditioning options x namespaces x widths x "
    "enlargement x resume; every returned / recorded / checkpointed population is re-evaluated. non-trivial = run in which >=2 populations "
    "with >=2 distinct rows were judged; distinct = distinct (sampler, namespace, dtype, outside mode, preconditioning, #populations, resumed)"
)
ASSUMPTIONS = [
    "user callables are deterministic functions of samples.x; reference values are float64 (float64 twin of the analytic proposal)",
    "tolerance 1e-10*(1+|ref|) for float64 populations, 5e-4*(1+|ref|) for float32",
    "final SMC samples carry no log_q (dropped by design); only likelihood and prior are judged there",
]
REQUIRED_COUNTERS = ["populations_judged", "rows_recomputed", "initial_populations_matched", "initial_rows_matched", "topup_rounds_seen"]


def cases(tier, seed):
    n = {"quick": 110, "thorough": 4000}[tier]
    return [{"seed": [seed, 10, k]} for k in range(n)]


def twin64(flow):
    kw = dict(dims=flow.dims, dtype="float64", family=flow.family, loc=flow.loc, scale=flow.scale, df=flow.df, fixed=True)
    if flow.lower is not None:
        kw.update(lower=flow.lower, upper=flow.upper)
    return type(flow)(**kw)


CUT = {"below": None, "prior_nan": False}


def judge_pop(pop, t, flow64, recipe, name, where, viol, counters, need_lq=True):
    x = pop["x"].astype(float)
    if x.ndim != 2 or x.shape[0] == 0:
        return
    f32 = "32" in str(pop["x"].dtype)
    rt = 5e-4 if f32 else 1e-10
    counters["populations_judged"] += 1
    counters["rows_recomputed"] += x.shape[0]
    ref_lp = t.ref_log_prior(x)
    ref_ll = t.ref_log_like(x)
    if CUT["below"] is not None:
        ref_ll = np.where(x[:, 0] < CUT["below"], -np.inf, ref_ll)
    if recipe:
        ref_ll = np.where(np.isfinite(ref_lp), ref_ll, -np.inf)
    if CUT["prior_nan"]:
        ref_lp = np.where(np.isfinite(ref_lp), ref_lp, np.nan)  # this user's prior is NaN outside its support
    refs = [("log_prior", pop["lp"], ref_lp), ("log_likelihood", pop["ll"], ref_ll)]
    if need_lq and pop.get("lq") is not None:
        ref_lq = np.asarray(to_np(flow64.log_prob(flow64.xp.asarray(x))), dtype=float)
        refs.append(("log_q", pop["lq"], ref_lq))
    elif need_lq:
        viol.append({"mech": "C10/log_q-missing", "detail": f"{where}: {name} has no log_q"})
    for fname, got, ref in refs:
        if got is None:
            viol.append({"mech": f"C10/{fname}-missing", "detail": f"{where}: {name}"})
            continue
        got = np.asarray(got, dtype=float).reshape(-1)
        if got.shape[0] != x.shape[0]:
            viol.append({"mech": f"C10/{fname}-length-differs-from-rows", "detail": f"{where}: {name}: {got.shape[0]} values for {x.shape[0]} rows"})
            continue
        inf_mismatch = np.isinf(ref) != np.isinf(got)
        fin = np.isfinite(ref) & np.isfinite(got)
        bad = inf_mismatch | (fin & (np.abs(got - ref) > rt * (1 + np.abs(ref)))) | (np.isnan(got) != np.isnan(ref))
        # next to a prior bound float32 rounding of x may flip inside/outside: skip rows within eps of a bound
        if f32 and bad.any():
            near = np.any((np.abs(x - t.lo) < 1e-5 * (1 + np.abs(t.lo))) | (np.abs(x - t.hi) < 1e-5 * (1 + np.abs(t.hi))), axis=1)
            bad &= ~near
        if bad.any():
            i = int(np.argmax(bad))
            # is it another row's value? (misalignment witness)
            j = np.where(np.isclose(ref, got[i], rtol=rt, atol=rt))[0]
            hint = f" (equals the reference value of row {int(j[0])})" if len(j) else ""
            viol.append(
                {
                    "mech": f"C10/{fname}-does-not-belong-to-row",
                    "detail": f"{where}: {name} row {i} x={x[i].tolist()}: stored {fname}={got[i]!r}, recomputed {ref[i]!r}{hint}; {int(bad.sum())}/{len(bad)} rows differ",
                }
            )


def match_initial(pop, emitted, n_req, name, where, viol, counters):
    counters["initial_populations_matched"] += 1
    if len(emitted) > 1:
        counters["topup_rounds_seen"] += len(emitted) - 1
    n = pop["x"].shape[0]
    if n != n_req:
        viol.append({"mech": "C10/initial-population-size-wrong", "detail": f"{where}: {name} has {n} rows, requested {n_req}"})
    if not np.isfinite(pop["lp"].astype(float)).all():
        viol.append({"mech": "C10/initial-population-has-out-of-prior-particle", "detail": f"{where}: {name}: {int((~np.isfinite(pop['lp'].astype(float))).sum())} rows with non-finite prior"})
    # the sample set may store the emitted values at its own width (e.g. torch default float32)
    ex = np.concatenate([e[0] for e in emitted]).astype(pop["x"].dtype).astype(float)
    elq = np.concatenate([e[1] for e in emitted]).astype(pop["lq"].dtype).astype(float)
    key = {tuple(r): k for k, r in reversed(list(enumerate(map(tuple, ex))))}
    px = pop["x"].astype(float)
    miss = 0
    wrong = None
    for i in range(n):
        k = key.get(tuple(px[i]))
        if k is None:
            miss += 1
            continue
        counters["initial_rows_matched"] += 1
        if float(pop["lq"][i]) != elq[k] and wrong is None:
            wrong = f"row {i} x={px[i].tolist()} stored log_q={float(pop['lq'][i])!r} but the proposal emitted {elq[k]!r} with that row"
    if miss:
        viol.append({"mech": "C10/initial-row-not-emitted-by-proposal", "detail": f"{where}: {name}: {miss}/{n} rows are not rows the proposal emitted"})
    if wrong:
        viol.append({"mech": "C10/initial-row-paired-with-another-rows-log_q", "detail": f"{where}: {name}: {wrong}"})


def run_case(case):
    from collections import Counter

    counters = Counter({k: 0 for k in REQUIRED_COUNTERS})
    viol = []
    g = np.random.default_rng(case["seed"])
    cfg = boundary.gen_case_cfg(g)
    shown = {k: cfg.get(k) for k in ("sampler", "xp", "dtype", "n", "opts", "precond", "outside_mode", "recipe", "resume", "cut_below", "prior_nan_outside")}
    counters["runs_with_nan_prior_outside_support"] += int(bool(cfg.get("prior_nan_outside")))
    where = f"{shown}"
    CUT["below"] = cfg.get("cut_below")
    CUT["prior_nan"] = bool(cfg.get("prior_nan_outside"))
    counters["runs_with_zero_likelihood_region"] += int(cfg.get("cut_below") is not None)
    try:
        out = boundary.execute(cfg)
    except boundary.DegenerateWorkload as exc:
        counters["degenerate_population_not_judged"] += 1
        return {"viol": [], "counters": dict(counters), "nontrivial": [], "sample": {"where": shown, "not_judged": str(exc)}}
    t = out["target"]
    f64 = twin64(out["flow"])
    smc = cfg["sampler"].endswith("smc")
    judged = 0
    if smc:
        for k, p in enumerate(out["history_pops"]):
            judge_pop(p, t, f64, cfg["recipe"], f"history[{k}]", where, viol, counters)
            judged += 1
        for it, p in out["payload_pops"]:
            judge_pop(p, t, f64, cfg["recipe"], f"checkpoint(iteration {it})", where, viol, counters)
        judge_pop(out["final"], t, f64, cfg["recipe"], "returned", where, viol, counters, need_lq=False)
        if out["history_pops"]:
            match_initial(out["history_pops"][0], out["flow"].emitted, cfg["n"], "initial population", where, viol, counters)
        nf = cfg["opts"].get("n_final_samples")
        want = nf if nf is not None else cfg["n"]
        if out["final"]["x"].shape[0] != want:
            viol.append({"mech": "C10/returned-size-wrong", "detail": f"{where}: returned {out['final']['x'].shape[0]} rows, expected {want}"})
        # looking at the record does not change it: after every diagnostic view of the history (plots, text, a save to a file)
        # and of the returned samples, the stored rows must still be the rows judged above
        run = out.get("run")
        if run is not None and run.history is not None and g.random() < 0.6:
            from ..harness import pop_to_np, rm_tmp, tmpfile

            h_obj = run.history
            views = []

            def frozen(p_):
                d_ = pop_to_np(p_)
                return {k_: (None if v_ is None else np.array(v_, copy=True)) for k_, v_ in d_.items()}

            before_h = [frozen(p_) for p_ in h_obj.sample_history]  # private copies: the arrays above may share memory with the record
            before_f = frozen(run.samples)
            for name in sorted(n_ for n_ in dir(h_obj) if n_.startswith("plot")):
                try:
                    getattr(h_obj, name)()
                    views.append(name)
                except Exception:  # noqa: BLE001  (a view that cannot be drawn in this environment is not what is judged here)
                    counters["history_views_that_raised"] += 1
            try:
                import matplotlib.pyplot as plt

                plt.close("all")
            except Exception:  # noqa: BLE001
                pass
            path = tmpfile("view.h5")
            try:
                import h5py

                with h5py.File(path, "w") as f:
                    h_obj.save(f)
                views.append("save")
            except Exception:  # noqa: BLE001
                counters["history_views_that_raised"] += 1
            finally:
                rm_tmp(path)
            str(run.samples)
            counters["histories_viewed_then_rejudged"] += 1
            after = [pop_to_np(p_) for p_ in h_obj.sample_history]
            for k, (p0, p1) in enumerate(zip(before_h, after)):
                if any(not np.array_equal(np.asarray(p0[f_]), np.asarray(p1[f_]), equal_nan=True) for f_ in ("x", "ll", "lp", "lq")):
                    viol.append({"mech": "C10/stored-rows-changed-by-looking-at-the-history", "detail": f"{where}: history[{k}] differs after {views}"})
                    break
            fin1 = pop_to_np(run.samples)
            if any(not np.array_equal(np.asarray(before_f[f_]), np.asarray(fin1[f_]), equal_nan=True) for f_ in ("x", "ll", "lp")):
                viol.append({"mech": "C10/stored-rows-changed-by-looking-at-the-history", "detail": f"{where}: returned samples differ after {views}"})
        if "resumed" in out:
            r2 = out["resumed"]["run"]
            for k, p in enumerate(r2.pops):
                judge_pop(p, t, f64, cfg["recipe"], f"resumed-history[{k}]", where, viol, counters)
            judge_pop(r2.final, t, f64, cfg["recipe"], "resumed-returned", where, viol, counters, need_lq=False)
            counters["resumed_runs"] += 1
    elif cfg["sampler"] == "importance":
        judge_pop(out["final"], t, f64, cfg["recipe"], "returned", where, viol, counters, need_lq=True)
        judged += 2
        em = out["flow"].emitted
        ex = np.concatenate([e[0] for e in em]).astype(out["final"]["x"].dtype).astype(float)
        if out["final"]["x"].shape[0] != cfg["n"] or not np.array_equal(out["final"]["x"].astype(float), ex[: cfg["n"]]):
            viol.append({"mech": "C10/importance-rows-are-not-the-emitted-rows", "detail": f"{where}"})
        elif not np.array_equal(out["final"]["lq"].astype(float), np.concatenate([e[1] for e in em]).astype(out["final"]["lq"].dtype).astype(float)[: cfg["n"]]):
            viol.append({"mech": "C10/importance-log_q-not-the-emitted-log_q", "detail": f"{where}"})
        counters["initial_populations_matched"] += 1
        counters["initial_rows_matched"] += cfg["n"]
    else:
        judge_pop(out["final"], t, f64, cfg["recipe"], "returned", where, viol, counters, need_lq=False)
        judged += 1
    sig = f"{cfg['sampler']}|{cfg['xp']}|{cfg['dtype']}|{cfg['outside_mode']}|{cfg['precond']['preconditioning']}{sorted((cfg['precond'].get('kwargs') or {}))}|{judged}|{'resumed' in out}"
    seen = {}
    for v in viol:
        seen.setdefault(v["mech"], dict(v, count=0))["count"] += 1
    return {
        "viol": list(seen.values()),
        "counters": dict(counters),
        "nontrivial": [sig] if judged >= 2 else [],
        "sample": {"cfg": shown, "populations": judged, "emitted_batches": len(out["flow"].emitted)},
    }
