"""C09 - resampling selects by incremental weight and copies particles intact.

Monitors: (1) the user's generator as a proxy: the probability vector, size and replace flag the
real `SMCSamples.resample` hands to it are compared with longdouble normalised incremental
weights; (2) populations have unique rows, so every output row identifies its source row and all
four fields must be bit-identical copies of that one row; (3) an implementation-agnostic
frequency test on source indices inferred from the rows; (4) every resample of whole SMC runs.
"""
from __future__ import annotations

import math

import numpy as np

from .. import env, smcrun
from ..harness import RngProxy, make_aspire, to_np
from ..targets import Coord, Target

ID = "C09"
LEVEL = "exploration"
RULE = (
    "direct: seeded populations with unique rows (N 2..2000, spreads 0..1e4, -inf members) x temperature pairs incl. tiny steps x requested size "
    "{None,1,N/2,3N} x 3 namespaces x 2 widths; freq: fixed small populations resampled hundreds of times; runs: every resample of scripted and "
    "moving-kernel SMC runs incl. the n_final_samples enlargement. non-trivial = resampling with non-uniform weights and >=2 distinct source "
    "rows drawn; distinct = distinct (N, spread decade, step decade, size mode, namespace, dtype) signatures"
)
ASSUMPTIONS = [
    "numpy Generator.choice draws according to the p it is given (the p is checked exactly; frequencies are a back-stop)",
    "p tolerance: eps(dtype)*(64 + 8|dbeta|(|ll|+|lp|+|lq|) + 8|log w - max|) relative",
]
REQUIRED_COUNTERS = ["direct_resamples", "p_vectors_checked", "rows_checked", "freq_tests", "run_resamples"]


def cases(tier, seed):
    out = []
    k = 0
    nb = {"quick": 30, "thorough": 1200}[tier]
    per = {"quick": 40, "thorough": 80}[tier]
    for b in range(nb):
        for xp in ("numpy", "torch", "jax"):
            if xp != "numpy" and b % 6 != 0:
                continue
            for dt in ("float64", "float32"):
                out.append({"kind": "direct", "xp": xp, "dtype": dt, "seed": [seed, 9, k], "n": per if xp != "jax" else 10})
                k += 1
    for b in range({"quick": 8, "thorough": 200}[tier]):
        out.append({"kind": "freq", "xp": ["numpy", "torch", "jax"][b % 3] if b % 4 == 0 else "numpy", "seed": [seed, 99, k]})
        k += 1
    for b in range({"quick": 30, "thorough": 800}[tier]):
        out.append({"kind": "run", "seed": [seed, 999, k], "xp": ["numpy", "torch", "jax"][b % 3] if b % 5 == 0 else "numpy"})
        k += 1
    return out


def unique_pop(g, n, dt, spread, d=2):
    x = np.empty((n, d))
    x[:, 0] = np.arange(n) + 0.25  # unique, exactly representable in float32 for n < 2^22
    x[:, 1:] = g.standard_normal((n, d - 1))
    s = smcrun.gen_weights(g, n, str(g.choice(["gauss", "heavy", "bimodal", "outlier", "ties", "peaked"])), spread)
    lq = g.normal(0, 2, n)
    lp = g.normal(0, 1, n)
    ll = s - lp + lq
    if g.random() < 0.15 and n > 3:
        m = g.random(n) < 0.3
        m[g.integers(n)] = False
        ll = np.where(m, -np.inf, ll)
    return x.astype(dt), ll.astype(dt), lp.astype(dt), lq.astype(dt)


def ref_p(ll, lp, lq, b0, b1):
    s = np.asarray(ll, dtype=np.longdouble) + np.asarray(lp, dtype=np.longdouble) - np.asarray(lq, dtype=np.longdouble)
    a = (np.longdouble(b1) - np.longdouble(b0)) * s
    a = np.where(np.isnan(a), -np.inf, a)
    m = np.max(a)
    u = np.exp(a - m)
    return np.asarray(u / np.sum(u), dtype=float), np.asarray(a - m, dtype=float)


def judge_resample(src, out, b0, b1, n_req, proxy_draws, dt, where, viol, counters, nontrivial_sig=None, nontrivial=None):
    n = src["x"].shape[0]
    want = n if n_req is None else n_req
    eps = float(np.finfo(dt).eps)
    pref, arel = ref_p(src["ll"], src["lp"], src["lq"], b0, b1)
    idx_from_rng = None
    ch = [d for d in proxy_draws if d["m"] == "choice"] if proxy_draws is not None else None
    if ch is not None:
        if len(ch) != 1:
            viol.append({"mech": "C09/generator-not-used-once", "detail": f"{where}: {len(ch)} choice() calls on the supplied generator"})
        else:
            c = ch[0]
            counters["p_vectors_checked"] += 1
            if c["a"] != n or (c["size"] != want) or c["replace"] is not True:
                viol.append({"mech": "C09/choice-arguments-wrong", "detail": f"{where}: a={c['a']} size={c['size']} replace={c['replace']} (N={n}, requested {want})"})
            p = c["p"]
            if p is None or p.shape != (n,):
                viol.append({"mech": "C09/p-vector-missing", "detail": f"{where}: p={None if p is None else p.shape}"})
            else:
                mag = np.abs(np.nan_to_num(src["ll"].astype(float), neginf=0)) + np.abs(src["lp"].astype(float)) + np.abs(src["lq"].astype(float))
                tol = eps * (64 + 8 * abs(b1 - b0) * mag + 8 * np.abs(np.where(np.isfinite(arel), arel, 0))) * pref + 1e-30
                bad = np.abs(p - pref) > tol
                if bad.any():
                    i = int(np.argmax(np.abs(p - pref) / (tol)))
                    viol.append({"mech": "C09/p-vector-wrong", "detail": f"{where}: p[{i}]={p[i]!r} reference {pref[i]!r} (tol {tol[i]:.3g}), sum p={p.sum()!r}"})
            idx_from_rng = np.asarray(c["out"]).reshape(-1)
    # ---- rows
    ox = out["x"]
    if ox.shape[0] != want:
        viol.append({"mech": "C09/size-wrong", "detail": f"{where}: {ox.shape[0]} rows, requested {want}"})
        return
    if out["beta"] is None or float(out["beta"]) != float(b1):
        viol.append({"mech": "C09/beta-not-stamped", "detail": f"{where}: result beta {out['beta']!r}, expected {b1!r}"})
    key = np.rint(src["x"][:, 0].astype(float) - 0.25).astype(int)
    okey = np.rint(ox[:, 0].astype(float) - 0.25).astype(int)
    if (okey < 0).any() or (okey >= n).any() or not np.array_equal(src["x"][np.clip(okey, 0, n - 1), 0], ox[:, 0]):
        viol.append({"mech": "C09/row-not-a-copy-of-a-source-row", "detail": f"{where}: output coordinates are not source coordinates"})
        return
    j = okey  # source index inferred from the row itself
    counters["rows_checked"] += len(j)
    for name in ("x", "ll", "lp", "lq"):
        if not np.array_equal(out[name], src[name][j], equal_nan=True):
            k = int(np.argmax(np.any(np.atleast_2d((out[name] != src[name][j]).T).T.reshape(len(j), -1), axis=1)))
            viol.append({"mech": f"C09/field-{name}-not-from-the-same-source-row", "detail": f"{where}: output row {k} (source {j[k]}): {name}={out[name][k]!r} source has {src[name][j[k]]!r}"})
    if idx_from_rng is not None and not np.array_equal(idx_from_rng, j):
        viol.append({"mech": "C09/rows-do-not-follow-drawn-indices", "detail": f"{where}: generator returned {idx_from_rng[:6]} rows came from {j[:6]}"})
    if (pref[j] <= 0).any():
        viol.append({"mech": "C09/zero-weight-row-selected", "detail": f"{where}: a row with zero incremental weight was drawn"})
    if nontrivial is not None and np.ptp(pref) > 1e-9 and len(set(j.tolist())) >= 2:
        nontrivial.add(nontrivial_sig)
    return j, pref


def direct_case(case, counters, viol, nontrivial):
    from aspire.samples import SMCSamples

    from ..harness import pop_to_np

    xp = env.xp_of(case["xp"])
    dt = case["dtype"]
    g = np.random.default_rng(case["seed"])
    for _ in range(case["n"]):
        n = int(np.exp(g.uniform(np.log(2), np.log(2000)))) if case["xp"] != "jax" else int(g.choice([2, 3, 17, 256]))
        spread = float(g.choice([0.0, 10 ** g.uniform(-3, 4)]))
        x, ll, lp, lq = unique_pop(g, n, dt, spread)
        b0 = float(g.choice([0.0, g.uniform(0, 0.99)]))
        step = float(g.choice([1.0 - b0, 10 ** g.uniform(-9, -1), g.uniform(0, 1 - b0)]))
        b1 = min(1.0, b0 + step)
        if b1 == b0:
            b1 = min(1.0, b0 + 1e-3)
        if g.random() < 0.2 and np.isfinite(ll.astype(float)).all():
            # a move to a lower temperature is a temperature pair as well (re-targeting a tempered population)
            b0, b1 = b1, b0
            counters["downward_moves"] += 1
        n_req = [None, 1, max(1, n // 2), 3 * n][g.integers(4)]
        if case["xp"] == "jax" and n_req not in (None, 1):
            n_req = 3 * n
        src = SMCSamples(x=xp.asarray(x), log_likelihood=xp.asarray(ll), log_prior=xp.asarray(lp), log_q=xp.asarray(lq), beta=b0, xp=xp, dtype=dt)
        proxy = RngProxy(int(g.integers(2**31)))
        where = f"direct xp={case['xp']} {dt} N={n} spread={spread:.3g} beta {b0:.6g}->{b1:.6g} n_samples={n_req}"
        if g.random() < 0.3:
            # state carried on the object: look-ahead weight evaluations (as the adaptive schedule does), then a field is
            # re-evaluated and reassigned (the library's own idiom in mutate), then the population is resampled
            src.log_weights(min(1.0, max(0.0, b0 + 0.5 * (b1 - b0))))
            src.log_evidence_ratio(b1)
            ll2 = np.where(g.random(n) < 0.4, ll + g.normal(0, 3, n).astype(dt), ll).astype(dt)
            if g.random() < 0.5 and n > 3 and b1 > b0:
                ll2 = np.where(np.arange(n) % 2 == 1, -np.inf, ll2).astype(dt)
            if not np.isfinite(ll2).any():
                # a population without any weight has nothing to resample from (the library refuses it): keep one live member
                ll2 = ll2.copy()
                ll2[int(g.integers(n))] = 0.0
            src.log_likelihood = xp.asarray(ll2)
            where += " [field reassigned after look-ahead]"
            counters["reassigned_before_resample"] += 1
        out = src.resample(b1, n_samples=n_req, rng=proxy)
        counters["direct_resamples"] += 1
        sig = f"{int(np.log10(n))}|{int(np.log10(spread)) if spread > 0 else 'flat'}|{int(np.log10(abs(b1-b0)))}{'down' if b1 < b0 else ''}|{'N' if n_req is None else ('1' if n_req == 1 else ('half' if n_req < n else '3N'))}|{case['xp']}|{dt}"
        judge_resample(pop_to_np(src), pop_to_np(out), b0, b1, n_req, proxy.draws, dt, where, viol, counters, sig, nontrivial)
        if str(to_np(out.x).dtype) != dt:
            viol.append({"mech": "C09/dtype-changed", "detail": f"{where}: output dtype {to_np(out.x).dtype}"})


def freq_case(case, counters, viol, nontrivial):
    """Implementation-agnostic: infer source indices from rows only, accumulate, chi-square vs p."""
    from aspire.samples import SMCSamples

    from ..harness import pop_to_np

    xp = env.xp_of(case["xp"])
    g = np.random.default_rng(case["seed"])
    n = int(g.integers(4, 30))
    spread = float(10 ** g.uniform(-0.5, 0.7))
    x, ll, lp, lq = unique_pop(g, n, "float64", spread)
    b0 = float(g.uniform(0, 0.5))
    b1 = float(g.uniform(b0 + 0.2, 1.0))
    if g.random() < 0.25 and np.isfinite(ll).all():
        b0, b1 = b1, b0
    src = SMCSamples(x=xp.asarray(x), log_likelihood=xp.asarray(ll), log_prior=xp.asarray(lp), log_q=xp.asarray(lq), beta=b0, xp=xp, dtype="float64")
    pref, _ = ref_p(ll, lp, lq, b0, b1)
    counts = np.zeros(n)
    R = 300 if case["xp"] == "numpy" else 60
    m = 3 * n
    gen = np.random.default_rng(int(g.integers(2**31)))
    for _ in range(R):
        out = src.resample(b1, n_samples=m, rng=gen)
        okey = np.rint(np.asarray(to_np(out.x), dtype=float)[:, 0] - 0.25).astype(int)
        counts += np.bincount(np.clip(okey, 0, n - 1), minlength=n)
    tot = counts.sum()
    exp = pref * tot
    big = exp >= 5
    obs = np.append(counts[big], counts[~big].sum())
    ex = np.append(exp[big], exp[~big].sum())
    if ex[-1] < 5 and len(ex) >= 2:
        # the pooled remainder itself is too small for the chi-square approximation: fold it into the smallest regular bin
        k = int(np.argmin(ex[:-1]))
        obs[k] += obs[-1]
        ex[k] += ex[-1]
        obs, ex = obs[:-1], ex[:-1]
    keep = ex > 0
    obs, ex = obs[keep], ex[keep]
    if len(ex) < 2:
        counters["freq_tests_with_a_single_bin_not_judged"] += 1
        nontrivial.add(f"freq|{n}|{case['xp']}")
        return {"chi2": 0.0, "dof": 0, "p": 1.0}
    chi2 = float(np.sum((obs - ex) ** 2 / ex))
    dof = max(1, len(ex) - 1)
    from scipy import stats

    pval = float(stats.chi2.sf(chi2, dof))
    counters["freq_tests"] += 1
    counters["freq_draws"] += int(tot)
    where = f"freq xp={case['xp']} N={n} beta {b0:.3g}->{b1:.3g} draws={int(tot)}"
    if pval < 1e-9:
        viol.append({"mech": "C09/selection-frequencies-not-proportional-to-weights", "detail": f"{where}: chi2={chi2:.1f} dof={dof} p={pval:.2e}; top obs/exp {obs[:4].tolist()} / {np.round(ex[:4],1).tolist()}"})
    nontrivial.add(f"freq|{n}|{case['xp']}")
    return {"chi2": chi2, "dof": dof, "p": pval}


def run_whole(case, counters, viol, nontrivial):
    g = np.random.default_rng(case["seed"])
    xpn = case["xp"]
    proxy = RngProxy(int(g.integers(2**31)))
    capped_cell = case["seed"][-1] % 3 == 0  # every third run: a fixed schedule cut short by the cap, then enlarged
    opts = {"rng": proxy, "adaptive": bool(g.random() < 0.55) and not capped_cell}
    if not opts["adaptive"]:
        opts["n_steps"] = int(g.integers(2 if capped_cell else 1, 8))
        if opts["n_steps"] >= 2 and (capped_cell or g.random() < 0.6):
            # the step cap ends the loop below temperature 1; the closing enlargement is then the move that takes the
            # population to 1 and must select by the weights of that move
            opts["max_n_steps"] = int(g.integers(1, opts["n_steps"]))
            counters["runs_cut_short_by_the_step_cap"] += 1
    if g.random() < 0.5 or "max_n_steps" in opts:
        opts["n_final_samples"] = int(g.integers(2, 90))
    rec = smcrun.Recorder(abort_on_stall=True, keep_vectors=False)
    rec.keep_resample_pops = True
    moving = bool(g.random() < 0.5)
    dt = "float64"
    if moving:
        t = Target([Coord("box", -5.0, 5.0, float(g.uniform(-2, 2)), float(10 ** g.uniform(-1, 0))) for _ in range(2)])
        a, _ = make_aspire(t, xpn, seed=int(g.integers(1000)))
        n = int(g.integers(10, 80))
        opts["sampler_kwargs"] = {"n_steps": 2}
        res = smcrun.run(a, n, "smc", opts, identity=False, max_calls=3000, rec=rec)
        unique_key = False
    else:
        n = int(g.integers(3, 120))
        ll = smcrun.gen_weights(g, n, "gauss", float(10 ** g.uniform(-1, 3)))
        dt = str(g.choice(["float64", "float32"]))
        sc = smcrun.Scripted(ll, lq=g.normal(0, 1, n), xp_name=xpn, dtype=dt)
        opts["sampler_kwargs"] = {"n_steps": 1}
        res = smcrun.run(sc.aspire(), n, "smc", opts, identity=True, max_calls=3000, rec=rec)
        unique_key = True
    where0 = f"run xp={xpn} moving={moving} N={n} opts={ {k: v for k, v in opts.items() if k not in ('rng', 'sampler_kwargs')} }"
    if res.exc is not None:
        raise res.exc
    choices = [d for d in proxy.draws if d["m"] == "choice"]
    real = [r for r in rec.resamples if not r["same_obj"]]
    if len(choices) != len(real):
        viol.append({"mech": "C09/run-resampling-bypasses-user-generator", "detail": f"{where0}: {len(real)} resamplings, {len(choices)} choice() calls on the supplied generator"})
        return
    for k, (r, c) in enumerate(zip(real, choices)):
        counters["run_resamples"] += 1
        src, out = r["src"], r["out"]
        b0, b1 = src["beta"], r["beta_to"]
        where = f"{where0} resample#{k} beta {b0}->{b1} n_req={r['n_req']}"
        nsrc = src["x"].shape[0]
        want = nsrc if r["n_req"] is None else r["n_req"]
        if r["n_req"] is not None and float(b1) != 1.0:
            # the enlarged population is the one that is moved by the kernel at temperature 1 and handed back
            viol.append({"mech": "C09/closing-enlargement-not-a-move-to-temperature-one", "detail": f"{where}: population at beta {b0!r} resampled for the final enlargement towards beta {b1!r}"})
        pref, arel = ref_p(src["ll"], src["lp"], src["lq"], b0, b1)
        counters["p_vectors_checked"] += 1
        eps = float(np.finfo(dt if not moving else str(src["ll"].dtype)).eps)
        mag = np.abs(np.nan_to_num(src["ll"].astype(float), neginf=0)) + np.abs(src["lp"].astype(float)) + np.abs(src["lq"].astype(float))
        tol = eps * (64 + 8 * abs(b1 - b0) * mag + 8 * np.abs(np.where(np.isfinite(arel), arel, 0))) * pref + 1e-30
        p = c["p"]
        if c["a"] != nsrc or c["size"] != want or c["replace"] is not True or p is None or p.shape != (nsrc,):
            viol.append({"mech": "C09/choice-arguments-wrong", "detail": f"{where}: a={c['a']} size={c['size']} replace={c['replace']}"})
            continue
        if (np.abs(p - pref) > tol).any():
            i = int(np.argmax(np.abs(p - pref) / tol))
            viol.append({"mech": "C09/p-vector-wrong", "detail": f"{where}: p[{i}]={p[i]!r} reference {pref[i]!r}"})
        idx = np.asarray(c["out"]).reshape(-1)
        if out["x"].shape[0] != want:
            viol.append({"mech": "C09/size-wrong", "detail": f"{where}: {out['x'].shape[0]} rows requested {want}"})
            continue
        counters["rows_checked"] += len(idx)
        for name in ("x", "ll", "lp", "lq"):
            if not np.array_equal(out[name], src[name][idx], equal_nan=True):
                viol.append({"mech": f"C09/field-{name}-not-from-the-same-source-row", "detail": f"{where}: field {name} is not source[{name}][drawn indices]"})
        if out["beta"] is None or float(out["beta"]) != float(b1):
            viol.append({"mech": "C09/beta-not-stamped", "detail": f"{where}: {out['beta']!r}"})
        if np.ptp(pref) > 1e-9 and len(set(idx.tolist())) >= 2:
            nontrivial.add(f"run|{moving}|{xpn}|{int(np.log10(nsrc))}|{'enlarge' if r['n_req'] else 'step'}")


def run_case(case):
    from collections import Counter

    counters = Counter({k: 0 for k in REQUIRED_COUNTERS})
    viol = []
    nontrivial = set()
    sample = None
    if case["kind"] == "direct":
        direct_case(case, counters, viol, nontrivial)
    elif case["kind"] == "freq":
        sample = freq_case(case, counters, viol, nontrivial)
    else:
        run_whole(case, counters, viol, nontrivial)
    seen = {}
    for v in viol:
        seen.setdefault(v["mech"], dict(v, count=0))["count"] += 1
    return {"viol": list(seen.values()), "counters": dict(counters), "nontrivial": sorted(nontrivial), "sample": sample or {"sigs": sorted(nontrivial)[:2]}}
