"""C12 - an interrupted run always leaves a loadable, current checkpoint file.

Fault enumeration with a file probe: for each configuration (cadence x run length x explicit path
or auto_checkpoint context x fresh file or a file left by a bigger earlier run) a fault is
injected at EVERY likelihood and EVERY prior call index.  An L2 recorder on `dump_state` logs the
bytes of every payload handed to the file; a probe inside the user's callables inspects the file
at every call.  Oracle: payload iterations = cadence set + final; from the first call on the file
holds /aspire_config and /flow; after every fault the dataset equals the most recent payload byte
for byte, unpickles, and Aspire.resume_from_file rebuilds the configured sampler.  Shrinking
payload sequences are driven through dump_state directly and through smaller re-runs.
"""
from __future__ import annotations

import os
import pickle

import numpy as np

from .. import recorded
from ..harness import InjectedFault, InjectedInterrupt, Probe, rm_tmp, tmpfile
from ..targets import Coord, Target

ID = "C12"
LEVEL = "fault_enumeration"
RULE = (
    "configurations = cadence 1..5 x fixed run length 1..12 (and adaptive) x {checkpoint_path, auto_checkpoint} x {fresh file, file left by a bigger "
    "run} x n_final_samples; a fault at every likelihood call index and every prior call index of the reference run; plus direct dump_state "
    "sequences with growing and shrinking payload sizes. non-trivial = fault after the first and before the last checkpoint write; distinct = "
    "(configuration signature, fault kind, fault index)"
)
ASSUMPTIONS = [
    "interruption = exception from the user's likelihood or prior",
    "'most recent payload' = last bytes the interrupted run handed to dump_state for this file; before its first checkpoint the file may hold no checkpoint or, intact, the last one of an earlier run (whether that one is still consistent with the file's proposal/config is C14's question)",
]
REQUIRED_COUNTERS = ["configurations", "continued_under_another_cadence", "faults_injected", "files_inspected_after_fault", "resume_from_file_checked", "dump_calls_recorded", "file_probes", "shrink_sequences"]
EXHAUSTIVE = True
CHUNK = 2
CHUNK_TIMEOUT = 1500

DUMPS = []  # (filename, iteration, bytes)
_PATCHED = False


def install_dump_recorder():
    global _PATCHED
    if _PATCHED:
        return
    import aspire.samplers.base as sb
    import aspire.utils as U

    orig = U.dump_state

    def dump_state(state, fp, path=None, dsetname="state", protocol=pickle.HIGHEST_PROTOCOL):
        b = pickle.dumps(state, protocol=protocol)
        out = orig(state, fp, path=path, dsetname=dsetname, protocol=protocol)
        it = state.get("iteration") if isinstance(state, dict) else None
        DUMPS.append((os.path.realpath(fp.filename), it, b))
        return out

    U.dump_state = dump_state
    sb.dump_state = dump_state
    _PATCHED = True


def cases(tier, seed):
    out = []
    k = 0
    lens = {"quick": [1, 2, 3, 5, 8, 12], "thorough": list(range(1, 13))}[tier]
    cads = {"quick": [1, 2, 3, 5], "thorough": [1, 2, 3, 4, 5]}[tier]
    for L in lens:
        for c in cads:
            out.append({"kind": "faults", "n_steps": L, "every": c, "seed": [seed, 12, k], "k": k})
            k += 1
    for b in range({"quick": 3, "thorough": 30}[tier]):
        out.append({"kind": "faults", "n_steps": None, "every": 1 + b % 3, "seed": [seed, 12, k], "k": k})
        k += 1
    # the other sampler sharing the checkpointing loop, and another array namespace
    variants = [("emcee_smc", "numpy"), ("smc", "torch"), ("emcee_smc", "torch"), ("smc", "jax")]
    for b in range({"quick": 6, "thorough": 72}[tier]):
        smp, xpn = variants[b % len(variants)]
        out.append({"kind": "faults", "n_steps": [None, 1, 2, 3, 4, 6][(b // len(variants)) % 6], "every": 1 + (b // 2) % 3, "seed": [seed, 12, k], "k": k, "sampler": smp, "xp": xpn})
        k += 1
    for b in range({"quick": 6, "thorough": 120}[tier]):
        out.append({"kind": "dump", "seed": [seed, 122, k]})
        k += 1
    return out


def read_file(path):
    import h5py

    out = {"config": False, "flow": False, "state": None}
    if not os.path.exists(path):
        return out
    with h5py.File(path, "r") as f:
        out["config"] = "aspire_config" in f
        out["flow"] = "flow" in f
        if "checkpoint" in f and "state" in f["checkpoint"]:
            out["state"] = f["checkpoint"]["state"][...].tobytes()
    return out


def mk_cfg(g, case, n):
    t = Target([Coord("box", -5.0, 5.0, float(g.uniform(-1, 1)), float(g.uniform(0.4, 0.9)))])
    cfg = recorded.default_cfg(g, target=t.describe(), sampler=case.get("sampler", "smc"), xp=case.get("xp", "numpy"), n=n)
    cfg["kernel_steps"] = 1
    cfg["flow"] = {"truncate": False, "widen": 3.0, "shift": 0.5}
    if case["n_steps"] is None:
        cfg["opts"] = {"adaptive": True, "target_efficiency": 0.9}
    else:
        cfg["opts"] = {"adaptive": False, "n_steps": case["n_steps"]}
    if g.random() < 0.3:
        cfg["opts"]["n_final_samples"] = n + 5
    cfg["ckpt_every"] = case["every"]
    cfg["precond"] = {"preconditioning": "default", "kwargs": {}}
    cfg["path_as_pathlib"] = bool(case["k"] % 3 == 1)
    return cfg


def one_run(cfg, path, mode, fault=None, observer=None, fault_exc=InjectedFault):
    """mode: 'path' (checkpoint_path=) or 'auto' (auto_checkpoint context)."""
    from .. import smcrun

    t = Target.from_desc(cfg["target"])
    probe = Probe(t, fault_like_at=(fault[1] if fault and fault[0] == "L" else None), fault_prior_at=(fault[1] if fault and fault[0] == "P" else None), fault_exc=fault_exc)
    if observer:
        probe.observers.append(observer)
    _, a, probe = recorded.build(cfg, probe=probe)
    if cfg.get("path_as_pathlib"):
        import pathlib

        path = pathlib.Path(path)  # a path object instead of a string is a documented way to name the file
    if mode == "path":
        kw = recorded.sample_kwargs(cfg, ckpt_path=path)
        res = smcrun.run(a, cfg["n"], cfg["sampler"], kw, max_calls=5000)
    elif mode == "auto_explicit":
        # inside a context with another cadence the call names the same file and its own cadence explicitly: the explicit
        # request is what counts
        kw = recorded.sample_kwargs(cfg, ckpt_path=path)
        with a.auto_checkpoint(path, every=1 if cfg["ckpt_every"] != 1 else 2):
            res = smcrun.run(a, cfg["n"], cfg["sampler"], kw, max_calls=5000)
    else:
        kw = recorded.sample_kwargs(cfg)
        res = None
        with_exc = None
        try:
            with a.auto_checkpoint(path, every=cfg["ckpt_every"]):
                res = smcrun.run(a, cfg["n"], cfg["sampler"], kw, max_calls=5000)
        except BaseException as exc:  # noqa: BLE001
            with_exc = exc
        if with_exc is not None:
            raise with_exc
    return res, probe, a


def two_runs_one_context(big_cfg, cfg, path, fault):
    """One Aspire instance, one auto_checkpoint context: a complete bigger run, then the interrupted run."""
    from .. import smcrun

    t = Target.from_desc(cfg["target"])
    probe = Probe(t)
    _, a, probe = recorded.build(cfg, probe=probe)
    with a.auto_checkpoint(path, every=cfg["ckpt_every"]):
        r1 = smcrun.run(a, big_cfg["n"], big_cfg["sampler"], recorded.sample_kwargs(big_cfg), max_calls=5000)
        if r1.exc is not None:
            raise r1.exc
        n_before = len(DUMPS)
        if fault[0] == "L":
            probe.fault_like_at = probe.n_like_calls + fault[1]
        else:
            probe.fault_prior_at = probe.n_prior_calls + fault[1]
        res = smcrun.run(a, cfg["n"], cfg["sampler"], recorded.sample_kwargs(cfg), max_calls=5000)
    res.n_before_second = n_before
    return res, probe, a


def faults_case(case, counters, viol, nontrivial):
    from aspire import Aspire

    install_dump_recorder()
    g = np.random.default_rng(case["seed"])
    n = int(g.integers(8, 20))
    cfg = mk_cfg(g, case, n)
    mode = ["path", "auto", "auto_explicit", "auto"][case["k"] % 4]
    prepopulate = case["k"] % 3 == 0
    shown = {"n": n, "sampler": cfg["sampler"], "xp": cfg["xp"], "opts": cfg["opts"], "every": cfg["ckpt_every"], "mode": mode, "file": "left by a bigger run" if prepopulate else "fresh"}
    where = f"{shown}"
    counters["configurations"] += 1
    # ---- reference run into a fresh file: cadence oracle + file probe at every call
    path0 = tmpfile("ref.h5")
    probes = []

    def observer(kind, idx, samples):
        st = read_file(path0)
        probes.append((kind, idx, st["config"], st["flow"], None if st["state"] is None else len(st["state"])))

    try:
        del DUMPS[:]
        res, probe, a = one_run(cfg, path0, mode, observer=observer)
        if res.exc is not None:
            raise res.exc
        T = len(res.history.beta)
        every = cfg["ckpt_every"]
        its = [it for (fn, it, b) in DUMPS if fn == os.path.realpath(path0)]
        want = [i for i in range(1, T + 1) if i % every == 0] + [T]
        counters["dump_calls_recorded"] += len(its)
        counters["file_probes"] += len(probes)
        if its != want:
            viol.append({"mech": "C12/checkpoint-iterations-differ-from-cadence", "detail": f"{where}: payload iterations {its}, cadence {every} over {T} iterations requires {want}"})
        if probes and not (probes[0][2] and probes[0][3]):
            viol.append({"mech": "C12/config-or-flow-missing-at-first-call", "detail": f"{where}: at the first user callable call the file has config={probes[0][2]} flow={probes[0][3]}"})
        if any(not (p[2] and p[3]) for p in probes):
            viol.append({"mech": "C12/config-or-flow-missing-during-run", "detail": f"{where}: {[p for p in probes if not (p[2] and p[3])][:2]}"})
        last_ref = DUMPS[-1][2] if DUMPS else None
        st = read_file(path0)
        if last_ref is not None and st["state"] != last_ref:
            viol.append({"mech": "C12/file-after-normal-end-differs-from-last-payload", "detail": f"{where}: {None if st['state'] is None else len(st['state'])} bytes in file, last payload {len(last_ref)}"})
        n_like, n_prior = probe.n_like_calls, probe.n_prior_calls
    finally:
        rm_tmp(path0)
    # ---- the run continued from one of its checkpoints under another cadence: iteration numbers are global, so the
    #      cadence grid of the continued run is the multiples of the *new* cadence
    ref_dumps = [d for d in DUMPS if d[0] == os.path.realpath(path0)]
    for e2 in (2, 3):
        cand = [d for d in ref_dumps[:-1] if d[1] % e2 != 0 and d[1] < T]
        if not cand or e2 == every:
            continue
        start = cand[int(g.integers(len(cand)))]
        path = tmpfile("cont.h5")
        try:
            del DUMPS[:]
            cfg2 = dict(cfg, ckpt_every=e2)
            _, a2, _ = recorded.build(cfg2)
            from .. import smcrun

            res2 = smcrun.run(a2, cfg2["n"], cfg2["sampler"], recorded.sample_kwargs(cfg2, ckpt_path=path, resume_from=start[2]), max_calls=5000)
            if res2.exc is not None:
                raise res2.exc
            T2 = len(res2.history.beta)
            its2 = [it for (fn, it, b) in DUMPS if fn == os.path.realpath(path)]
            want2 = [i for i in range(start[1] + 1, T2 + 1) if i % e2 == 0] + [T2]
            counters["continued_under_another_cadence"] += 1
            if its2 != want2:
                viol.append({"mech": "C12/checkpoint-iterations-differ-from-cadence/continued-run", "detail": f"{where}: continued from iteration {start[1]} with cadence {e2} over {T2} iterations: payload iterations {its2}, required {want2}"})
        finally:
            rm_tmp(path)
    # ---- the job ended after the run's closing checkpoint; it is continued from that payload while checkpointing to ANOTHER
    #      file: nothing is left to compute, but "once at the end" still holds - the new file must end up with the closing payload
    if ref_dumps and cfg["sampler"] != "emcee_smc":
        path = tmpfile("closing.h5")
        try:
            del DUMPS[:]
            _, a4, _ = recorded.build(cfg)
            from .. import smcrun

            res4 = smcrun.run(a4, cfg["n"], cfg["sampler"], recorded.sample_kwargs(cfg, ckpt_path=path, resume_from=ref_dumps[-1][2]), max_calls=5000)
            if res4.exc is not None:
                raise res4.exc
            counters["continued_from_the_closing_checkpoint_into_another_file"] += 1
            its4 = [it for (fn, it, b) in DUMPS if fn == os.path.realpath(path)]
            st4 = read_file(path)
            if its4 != [T] or st4["state"] is None:
                viol.append({"mech": "C12/no-closing-checkpoint-in-the-file-of-a-continued-run", "detail": f"{where}: continued from the closing checkpoint (iteration {T}) into a new file: payload iterations written {its4}, file holds {None if st4['state'] is None else len(st4['state'])} bytes, config={st4['config']} flow={st4['flow']}"})
            elif st4["state"] != [d for d in DUMPS if d[0] == os.path.realpath(path)][-1][2]:
                viol.append({"mech": "C12/file-after-normal-end-differs-from-last-payload/continued-from-closing-checkpoint", "detail": where})
        finally:
            rm_tmp(path)
    # ---- second use after a caught failure: inside one auto_checkpoint context a bigger run is interrupted (the caller
    #      catches the exception), then this run is made; its checkpoints must be written as if nothing had happened before
    if mode == "auto" and cfg["sampler"] != "emcee_smc":
        from .. import smcrun

        path = tmpfile("after.h5")
        try:
            del DUMPS[:]
            tt = Target.from_desc(cfg["target"])
            pr = Probe(tt)
            _, a3, pr = recorded.build(cfg, probe=pr)
            with a3.auto_checkpoint(path, every=cfg["ckpt_every"]):
                pr.fault_like_at = pr.n_like_calls + int(g.integers(1, max(2, n_like // 2)))
                bigc = dict(cfg, n=3 * n + 7)
                r1 = smcrun.run(a3, bigc["n"], bigc["sampler"], recorded.sample_kwargs(bigc), max_calls=5000)
                pr.fault_like_at = None
                nb = len(DUMPS)
                r2 = smcrun.run(a3, cfg["n"], cfg["sampler"], recorded.sample_kwargs(cfg), max_calls=5000)
            if r2.exc is not None:
                raise r2.exc
            counters["runs_after_a_caught_failure"] += int(r1.exc is not None)
            T3 = len(r2.history.beta)
            its3 = [it for (fn, it, b) in DUMPS[nb:] if fn == os.path.realpath(path)]
            want3 = [i for i in range(1, T3 + 1) if i % every == 0] + [T3]
            if its3 != want3:
                viol.append({"mech": "C12/checkpoint-iterations-differ-from-cadence/after-a-caught-failure", "detail": f"{where}: payload iterations {its3}, required {want3}"})
            st3 = read_file(path)
            last3 = DUMPS[-1][2] if len(DUMPS) > nb else None
            if not (st3["config"] and st3["flow"]) or (last3 is not None and st3["state"] != last3):
                viol.append({"mech": "C12/file-after-normal-end-differs-from-last-payload/after-a-caught-failure", "detail": f"{where}: config={st3['config']} flow={st3['flow']} state bytes {None if st3['state'] is None else len(st3['state'])} vs last payload {None if last3 is None else len(last3)}"})
        finally:
            rm_tmp(path)
    # ---- a fault at every likelihood and prior call index
    big_cfg = dict(cfg, n=3 * n + 7)
    first_ckpt_call = None
    for kind, total in (("L", n_like), ("P", n_prior)):
        for idx in range(total):
            path = tmpfile("f.h5")
            try:
                del DUMPS[:]
                same_ctx = prepopulate and mode == "auto" and (idx % 2 == 0)
                if prepopulate and not same_ctx:
                    rb, _, _ = one_run(big_cfg, path, mode)
                    if rb.exc is not None:
                        raise rb.exc
                n_before = len(DUMPS)
                counters["faults_injected"] += 1
                if same_ctx:
                    counters["two_runs_in_one_context"] += 1
                    res, probe, a = two_runs_one_context(big_cfg, cfg, path, (kind, idx))
                    n_before = res.n_before_second
                else:
                    # every third interruption is not an Exception subclass (Ctrl-C like)
                    fexc = InjectedInterrupt if idx % 3 == 1 else InjectedFault
                    counters["interrupt_type_faults"] += int(fexc is InjectedInterrupt)
                    res, probe, a = one_run(cfg, path, mode, fault=(kind, idx), fault_exc=fexc)
                if res.exc is None and cfg["sampler"] == "emcee_smc":
                    # this sampler takes no random source: the run is not a replay of the reference run and may make fewer calls
                    counters["fault_index_beyond_unseeded_run"] += 1
                    continue
                if res.exc is None and same_ctx:
                    # the second run of a context starts from a proposal generator the first run has advanced: with an adaptive
                    # schedule it is not a replay of the reference run and may make fewer calls than the fault index
                    counters["fault_index_beyond_a_run_that_is_not_a_replay"] += 1
                    continue
                if res.exc is None:
                    viol.append({"mech": "C12/fault-not-reached", "detail": f"{where}: {kind} call {idx} of {total}"})
                    continue
                if not isinstance(res.exc, (InjectedFault, InjectedInterrupt)):
                    raise res.exc
                mine = [d for d in DUMPS[n_before:] if d[0] == os.path.realpath(path)]  # payloads of the interrupted run
                earlier = [d for d in DUMPS[:n_before] if d[0] == os.path.realpath(path)]  # left by the earlier, bigger run
                latest = mine[-1][2] if mine else None
                # the cadence also binds a run that ends in an interruption: what it wrote must be what the uninterrupted run
                # had written by then (a prefix of the grid) - an extra write "to save progress" on the way out is off the grid
                its_f = [d[1] for d in mine]
                if cfg["sampler"] != "emcee_smc" and not same_ctx:
                    counters["interrupted_runs_judged_against_the_cadence"] += 1
                    if its_f != its[: len(its_f)]:
                        viol.append({"mech": "C12/checkpoint-iterations-differ-from-cadence/interrupted-run", "detail": f"{where} [fault at {kind} call {idx}/{total}, {res.exc.__class__.__name__}]: payload iterations {its_f}; the uninterrupted run wrote {its}"})
                st = read_file(path)
                if latest is None and earlier and st["state"] is not None:
                    # the interrupted run wrote nothing yet: a checkpoint that is still there must be the earlier run's last one, intact
                    latest = earlier[-1][2]
                    # ... and it must not pass for a checkpoint of the interrupted run: resuming would silently return the
                    # earlier run's (finished, differently sized) population instead of continuing / restarting this one
                    try:
                        n_old = len(pickle.loads(st["state"])["samples"].x)
                    except Exception:  # noqa: BLE001
                        n_old = None
                    if n_old is not None and n_old != cfg["n"]:
                        viol.append(
                            {
                                "mech": "C12/file-holds-an-earlier-runs-checkpoint-as-current",
                                "detail": f"{where} [fault at {kind} call {idx}/{total}]: the interrupted run ({cfg['n']} particles) has not checkpointed yet, "
                                f"but the file offers a checkpoint with {n_old} particles from the earlier run for resumption",
                            }
                        )
                counters["files_inspected_after_fault"] += 1
                tag = f"{where} [fault at {kind} call {idx}/{total}]"
                if not (st["config"] and st["flow"]):
                    viol.append({"mech": "C12/config-or-flow-missing-after-fault", "detail": f"{tag}: config={st['config']} flow={st['flow']}"})
                if latest is None:
                    if st["state"] is not None:
                        viol.append({"mech": "C12/checkpoint-present-though-none-was-written", "detail": tag})
                else:
                    if st["state"] is None:
                        viol.append({"mech": "C12/checkpoint-missing-after-fault", "detail": tag})
                    elif st["state"] != latest:
                        kindm = "stale-suffix" if len(st["state"]) > len(latest) and st["state"][: len(latest)] == latest else ("truncated" if latest[: len(st["state"])] == st["state"] else "stale")
                        viol.append({"mech": f"C12/file-not-the-most-recent-payload/{kindm}", "detail": f"{tag}: file holds {len(st['state'])} bytes, most recent payload has {len(latest)}"})
                    else:
                        try:
                            obj = pickle.loads(st["state"])
                            assert obj.get("samples") is not None
                        except Exception as exc:  # noqa: BLE001
                            viol.append({"mech": "C12/checkpoint-does-not-unpickle", "detail": f"{tag}: {exc!r}"})
                # documented resume route
                counters["resume_from_file_checked"] += 1
                p2 = Probe(Target.from_desc(cfg["target"]))
                try:
                    a2 = Aspire.resume_from_file(path, log_likelihood=p2.log_likelihood, log_prior=p2.log_prior)
                    if a2.flow is None:
                        viol.append({"mech": "C12/resume_from_file-without-proposal", "detail": tag})
                    if latest is not None:
                        stype = getattr(a2, "_resume_sampler_type", None)
                        cls = a2.get_sampler_class(stype).__name__ if stype else None
                        if cls != pickle.loads(latest)["sampler"]:
                            viol.append({"mech": "C12/resume_from_file-wrong-sampler", "detail": f"{tag}: primed sampler {stype} ({cls}), checkpoint written by {pickle.loads(latest)['sampler']}"})
                        if getattr(a2, "_resume_from_default", None) != latest:
                            viol.append({"mech": "C12/resume_from_file-primed-with-other-bytes", "detail": tag})
                except Exception as exc:  # noqa: BLE001
                    viol.append({"mech": "C12/resume_from_file-raises", "detail": f"{tag}: {type(exc).__name__}: {str(exc)[:200]}"})
                if mine:
                    nontrivial.add(f"{case['n_steps']}|{cfg['ckpt_every']}|{mode}|{prepopulate}|{kind}{idx}")
            finally:
                rm_tmp(path)
    return {"where": shown, "likelihood_calls": n_like, "prior_calls": n_prior, "payload_iterations": its}


def dump_case(case, counters, viol, nontrivial):
    """Direct dump_state sequences with growing and shrinking payload sizes into one dataset."""
    from aspire.utils import AspireFile, dump_state

    g = np.random.default_rng(case["seed"])
    path = tmpfile("d.h5")
    sizes = []
    try:
        for step in range(int(g.integers(4, 12))):
            size = int(10 ** g.uniform(0.5, 4.5))
            sizes.append(size)
            obj = {"iteration": step, "blob": g.bytes(size), "samples": None}
            proto = pickle.HIGHEST_PROTOCOL
            with AspireFile(path, "a") as f:
                dump_state(obj, f, path="checkpoint", dsetname="state", protocol=proto)
            st = read_file(path)
            want = pickle.dumps(obj, protocol=proto)
            counters["dump_roundtrips"] += 1
            if st["state"] != want:
                kindm = "stale-suffix" if st["state"] is not None and len(st["state"]) > len(want) else "other"
                viol.append({"mech": f"C12/dump_state-readback-differs/{kindm}", "detail": f"sizes so far {sizes}: file {None if st['state'] is None else len(st['state'])} bytes vs payload {len(want)}"})
                break
            try:
                pickle.loads(st["state"])
            except Exception as exc:  # noqa: BLE001
                viol.append({"mech": "C12/checkpoint-does-not-unpickle", "detail": f"sizes {sizes}: {exc!r}"})
        counters["shrink_sequences"] += int(any(b < a for a, b in zip(sizes, sizes[1:])))
        nontrivial.add(f"dump|{len(sizes)}|{sum(b < a for a, b in zip(sizes, sizes[1:]))}")
    finally:
        rm_tmp(path)
    return {"sizes": sizes}


def run_case(case):
    from collections import Counter

    counters = Counter({k: 0 for k in REQUIRED_COUNTERS})
    viol = []
    nontrivial = set()
    if case["kind"] == "faults":
        sample = faults_case(case, counters, viol, nontrivial)
    else:
        sample = dump_case(case, counters, viol, nontrivial)
    seen = {}
    for v in viol:
        seen.setdefault(v["mech"], dict(v, count=0))["count"] += 1
    return {"viol": list(seen.values()), "counters": dict(counters), "nontrivial": sorted(nontrivial), "sample": sample}
