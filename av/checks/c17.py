"""C17 - prior is evaluated before likelihood on the same points; evaluations are counted.

Temporal monitor inside the user's log-likelihood: at every call (all sampler types, initial
draws, kernel target evaluations, post-mutation re-evaluation, enlargement, resumed runs) the
Samples argument must already carry a log_prior with one entry per row that equals the prior
recomputed from samples.x at that moment; the rows over all calls are summed and compared with
the number of likelihood evaluations the library reports.  In half the runs the likelihood is
the documented recipe (skip rows whose prior is not finite).
"""
from __future__ import annotations

import numpy as np

from .. import boundary

ID = "C17"
LEVEL = "exploration"
RULE = (
    "runs = the C10 workload generator (all six sampler types + importance, out-of-prior fractions, preconditioning, namespaces, widths, "
    "enlargement, resume) with the temporal monitor in the likelihood. non-trivial = run with >=3 likelihood calls of which >=1 comes from the "
    "kernel; distinct = distinct (sampler, namespace, dtype, outside mode, preconditioning, recipe, #calls bucket, resumed)"
)
ASSUMPTIONS = [
    "Python-level calls are counted: under BlackJAX/jax tracing the user's function runs once per trace, and so does aspire's counter",
    "carried prior compared with the float64 reference at rtol/atol 1e-5",
]
REQUIRED_COUNTERS = ["runs", "likelihood_calls_monitored", "rows_counted", "counts_compared", "recipe_runs"]


def cases(tier, seed):
    n = {"quick": 110, "thorough": 4000}[tier]
    out = [{"seed": [seed, 17, k]} for k in range(n)]
    # one very large batch (importance sampling with hundreds of thousands of draws is ordinary use): the figure must not depend
    # on how many points a single call carries
    for j in range({"quick": 2, "thorough": 6}[tier]):
        out.append({"seed": [seed, 171, j], "large_batch": int([150_001, 262_144, 100_001, 400_000, 131_073, 1_000_003][j])})
    return out


def judge_probe(probe, reported, where, viol, counters):
    c = probe.c17
    counters["likelihood_calls_monitored"] += c["calls"]
    counters["traced_calls"] += c["traced"]
    counters["rows_counted"] += probe.like_rows
    if c["missing_prior"]:
        viol.append({"mech": "C17/likelihood-called-without-prior", "detail": f"{where}: {c['missing_prior']} of {c['calls']} calls; first: {probe.c17_witness}"})
    if c["len_mismatch"]:
        viol.append({"mech": "C17/prior-length-differs-from-rows", "detail": f"{where}: {c['len_mismatch']} calls; first: {probe.c17_witness}"})
    if c["value_mismatch"]:
        viol.append({"mech": "C17/carried-prior-is-not-the-prior-of-these-points", "detail": f"{where}: {c['value_mismatch']} of {c['calls']} calls; first: {probe.c17_witness}"})
    counters["counts_compared"] += 1
    if reported != probe.like_rows:
        viol.append({"mech": "C17/reported-evaluation-count-wrong", "detail": f"{where}: reported n_likelihood_evaluations={reported}, the likelihood was asked for {probe.like_rows} points in {c['calls']} calls"})
    # prior must precede the likelihood for each batch: event order P then L with the same row count
    ev = probe.events
    for i, (k, n) in enumerate(ev):
        if k == "L":
            if i == 0 or ev[i - 1] != ("P", n):
                viol.append({"mech": "C17/likelihood-call-not-preceded-by-prior-call-on-same-batch", "detail": f"{where}: event {i}: {ev[max(0,i-2):i+1]}"})
                break


def run_case(case):
    from collections import Counter

    counters = Counter({k: 0 for k in REQUIRED_COUNTERS})
    viol = []
    g = np.random.default_rng(case["seed"])
    cfg = boundary.gen_case_cfg(g)
    cfg["prior_nan_outside"] = False  # C10's input class; here the carried prior is compared with the -inf convention
    if case.get("large_batch"):
        cfg.update(sampler="importance", n=int(case["large_batch"]), xp=str(g.choice(["numpy", "torch"])), resume=False)
        cfg["precond"] = {"preconditioning": None, "kwargs": {}}
        counters["large_batch_runs"] += 1
    shown = {k: cfg.get(k) for k in ("sampler", "xp", "dtype", "n", "opts", "precond", "outside_mode", "recipe", "resume", "cut_below")}
    where = f"{shown}"
    import contextlib

    from .. import env

    debug = bool(g.random() < 0.35)
    counters["runs_with_debug_logging"] += int(debug)
    shown["debug_logging"] = debug
    where = f"{shown}"
    try:
        with env.debug_logging() if debug else contextlib.nullcontext():
            out = boundary.execute(cfg)
    except boundary.DegenerateWorkload as exc:
        counters["degenerate_population_not_judged"] += 1
        return {"viol": [], "counters": dict(counters), "nontrivial": [], "sample": {"where": shown, "not_judged": str(exc)}}
    counters["runs"] += 1
    counters["recipe_runs"] += int(cfg["recipe"])
    judge_probe(out["probe"], out["reported"], where, viol, counters)
    # the same configuration with the likelihood failing at one of its calls: the figure read afterwards still has to be
    # the number of points the callable was asked for (the failing batch was asked for)
    if cfg["sampler"] in ("smc", "emcee_smc", "importance") and out["probe"].n_like_calls >= 1:
        from ..harness import InjectedFault

        k = int(g.integers(0, out["probe"].n_like_calls)) if cfg["sampler"] != "emcee_smc" else 0
        pf, reported_f, exc = boundary.execute_with_fault(cfg, k)
        if isinstance(exc, InjectedFault):
            counters["counts_compared_after_fault"] += 1
            if reported_f != pf.asked_rows:
                viol.append({"mech": "C17/reported-evaluation-count-wrong-after-failing-call", "detail": f"{where}: likelihood raised at its call {k}; reported {reported_f}, asked for {pf.asked_rows} points in {pf.n_like_calls} calls"})
        elif exc is not None and not isinstance(exc, boundary.DegenerateWorkload):
            raise exc
    # a second, fresh run on the very same sampler object (sampler.sample(...) called again by a user who keeps the sampler):
    # the figure must be the number of points asked for - since the sampler was made, or in the latest run - nothing else
    if cfg["sampler"] in ("smc", "emcee_smc") and "run" in out:
        from .. import recorded as _rec

        rows_before = out["probe"].like_rows
        again = _rec.record_again(out["run"], rng=np.random.default_rng(int(g.integers(2**31))))
        if again.exc is None:
            rows_total = out["probe"].like_rows
            rep2 = out["aspire"].n_likelihood_evaluations
            counters["counts_compared_on_a_reused_sampler"] += 1
            if rep2 not in (rows_total, rows_total - rows_before):
                viol.append({"mech": "C17/reported-evaluation-count-wrong-on-a-reused-sampler", "detail": f"{where}: second fresh run on the same sampler object: reported {rep2}; the likelihood was asked for {rows_total} points since the sampler was made, {rows_total - rows_before} of them in the second run"})
            c2 = out["probe"].c17
            if c2["missing_prior"] or c2["len_mismatch"] or c2["value_mismatch"]:
                viol.append({"mech": "C17/carried-prior-wrong-on-a-reused-sampler", "detail": f"{where}: {c2} {out['probe'].c17_witness}"})
        elif not isinstance(again.exc, boundary.DegenerateWorkload) and not boundary._collapsed(out["aspire"], again.exc):
            raise again.exc
    if "resumed" in out:
        r = out["resumed"]
        judge_probe(r["probe"], r["reported"], where + f" [resumed from iteration {r['from_iteration']}]", viol, counters)
        counters["resumed_runs"] += 1
    # Aspire.convert_to_samples(evaluate=True): prior first, then likelihood, on the same object
    from ..harness import Probe

    t = out["target"]
    p2 = Probe(t, recipe=cfg["recipe"])
    a = out["aspire"]
    a.log_likelihood, a.log_prior = p2.log_likelihood, p2.log_prior
    xs = np.column_stack([g.uniform(c.lo - 0.5, c.hi + 0.5, 9) for c in t.coords])
    try:
        a.convert_to_samples(a.xp.asarray(xs))
        raised = None
    except AttributeError as exc:
        # observation outside the 20 properties: with the torch namespace convert_to_samples raises
        # (array_api_compat.torch has no to_device) before/after the callables run; recorded, not judged
        raised = exc
        counters["convert_to_samples_raised_recorded"] += 1
    counters["convert_to_samples_checked"] += 1
    c = p2.c17
    if raised is not None and c["calls"] == 0:
        pass
    elif c["calls"] != 1 or c["missing_prior"] or c["len_mismatch"] or c["value_mismatch"] or p2.events[:2] != [("P", 9), ("L", 9)]:
        viol.append({"mech": "C17/convert_to_samples-prior-not-before-likelihood", "detail": f"{where}: events {p2.events} monitor {c} {p2.c17_witness}"})
    calls = out["probe"].c17["calls"]
    sig = f"{cfg['sampler']}|{cfg['xp']}|{cfg['dtype']}|{cfg['outside_mode']}|{cfg['precond']['preconditioning']}{sorted((cfg['precond'].get('kwargs') or {}))}|{cfg['recipe']}|{min(calls // 10, 9)}|{'resumed' in out}"
    seen = {}
    for v in viol:
        seen.setdefault(v["mech"], dict(v, count=0))["count"] += 1
    return {
        "viol": list(seen.values()),
        "counters": dict(counters),
        "nontrivial": [sig] if calls >= 3 and cfg["sampler"] != "importance" else [],
        "sample": {"cfg": shown, "likelihood_calls": calls, "rows": out["probe"].like_rows, "reported": out["reported"], "first_events": out["probe"].events[:6]},
    }
