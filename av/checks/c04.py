"""C04 - parameter transforms are bijections with exact log-Jacobians.

Monitor: recording contracts around the real forward / inverse / fit of every transform class
(and composites), judged against (i) round trip, (ii) a black-box central-difference derivative
of the *implemented* forward map evaluated in float64, (iii) inverse = -forward, (iv) periodic
range/congruence/zero-Jacobian, (v) fit(x) == forward(x)[0] bit for bit.
"""
from __future__ import annotations

import math

import numpy as np

from .. import env
from ..harness import to_np
from ..targets import PARAM_NAMES as _PN

PARAM_NAMES = list(_PN) + [f"{"qrstuvwxyz"[k % 10]}{k}" for k in range(32)]  # more names for high-dimensional specs (still unsorted)

ID = "C04"
LEVEL = "exploration"
RULE = (
    "cases = seeded batches of (transform class or composite on/off combination, bounds with widths 1e-6..1e6 and offsets, "
    "interior points down to the clipping margin, periodic inputs anywhere on the real line, batch 1/2/257) x 3 namespaces x 2 widths; "
    "non-trivial = configuration with at least one non-identity component and >=1 interior point judged; distinct = distinct "
    "(class, flags, dims, width-decades, namespace, dtype) signatures"
)
ASSUMPTIONS = [
    "derivative oracle = central differences of the implemented forward map evaluated in float64 (same class, float64 twin for float32 configurations)",
    "points inside the documented clipping margin (eps) next to a bound are only checked for no-exception / finite output",
    "offset/width ratio limited so that the interval is representable in the dtype (1e3 float32, 1e8 float64)",
]
REQUIRED_COUNTERS = ["forward_calls", "inverse_calls", "fit_calls", "jac_points_judged", "roundtrip_points_judged", "periodic_points_judged"]

CLIP = 1e-6
KINDS = ["identity", "periodic", "logit", "probit", "affine", "composite", "composite", "composite", "flowtransform"]


def cases(tier, seed):
    nb = {"quick": 10, "thorough": 400}[tier]
    per = {"quick": 14, "thorough": 40}[tier]
    out = []
    k = 0
    for b in range(nb):
        for xp in ("numpy", "torch", "jax"):
            if tier == "quick" and xp == "jax" and b >= 4:
                continue
            for dt in ("float64", "float32"):
                out.append({"xp": xp, "dtype": dt, "seed": [seed, 4, k], "n": per, "kind": "diag"})
                k += 1
            if b % 3 == 0:
                # no precision requested at all (dtype=None): the namespace default applies; bounds are then also given the
                # way users write them - as plain Python integers - in part of the specs
                out.append({"xp": xp, "dtype": {"numpy": "float64", "jax": "float64", "torch": "float32"}[xp], "dtype_none": True, "seed": [seed, 4, k], "n": per, "kind": "diag"})
                k += 1
    nf = {"quick": 3, "thorough": 24}[tier]
    for b in range(nf):
        for backend, xp in (("zuko", "torch"), ("zuko", "numpy"), ("flowjax", "jax")):
            out.append({"kind": "flowprec", "backend": backend, "xp": xp, "seed": [seed, 44, k]})
            k += 1
    return out


# ------------------------------------------------------------------ generation


def gen_bounds(g, dt, d):
    lo, hi = [], []
    for _ in range(d):
        wexp = g.uniform(-12, 6) if dt == "float64" else g.uniform(-4, 4)
        w = 10**wexp
        omax = 8 if dt == "float64" else 3
        off = g.uniform(-1, 1) * w * 10 ** g.uniform(0, omax) * (g.random() < 0.6)
        lo.append(off)
        hi.append(off + w)
    lo = np.array(lo).astype(dt).astype(float)
    hi = np.array(hi).astype(dt).astype(float)
    return lo, hi


def gen_spec(g, dt):
    kind = KINDS[g.integers(len(KINDS))]
    d = int(g.integers(1, 5))
    lo, hi = gen_bounds(g, dt, d)
    fam = g.random()
    if fam < 0.08:
        # every interval of width exactly one, most of them not starting at zero (phases, fractions, unit cubes shifted)
        lo = np.array([float(g.choice([-0.5, 1.0, -3.0, 0.0, 2.0, -1.0])) for _ in range(d)])
        hi = lo + 1.0
    elif fam < 0.16:
        # many parameters with consistently narrow or consistently wide intervals: sums of logs stay moderate while
        # products of widths leave the floating-point range
        d = int(g.integers(8, 17))
        c = float(g.choice([-5.0, -4.0, 5.0, 6.0] if dt == "float32" else [-12.0, -5.0, 6.0, 12.0]))
        w = 10.0 ** (c + g.uniform(-0.2, 0.2, d))
        lo = (g.uniform(-1, 1, d) * w).astype(dt).astype(float)
        hi = (lo + w).astype(dt).astype(float)
    if kind in ("affine", "identity"):
        lo = np.full(d, -np.inf)
        hi = np.full(d, np.inf)
    int_bounds = False
    if MODE["dtype_none"] and g.random() < 0.4:
        # degrees, hours, unit phases: integer-valued bounds (written as Python integers when no dtype is requested)
        lo = np.array([float(g.integers(-5, 6)) for _ in range(d)])
        hi = lo + np.array([float(g.choice([1, 2, 10, 24, 360])) for _ in range(d)])
        int_bounds = True
    spec = {"kind": kind, "d": d, "lo": lo, "hi": hi, "int_bounds": int_bounds and kind not in ("affine", "identity")}
    if (kind == "affine" or spec.get("affine")) and g.random() < 0.15:
        spec["tiny_free"] = [float(10 ** (g.uniform(-7.3, -6.2) if dt == "float32" else g.uniform(-16.3, -15.0))) for _ in range(d)]
    if kind in ("logit", "probit", "periodic") and d > 1 and g.random() < 0.25:
        # one interval for all columns, written once as a plain number (e.g. LogitTransform(0.0, 2.0, xp) on a batch of angles)
        spec["lo"] = np.full(d, float(lo[0]))
        spec["hi"] = np.full(d, float(hi[0]))
        spec["scalar_bounds"] = True
    if kind in ("composite", "flowtransform"):
        types = []
        for j in range(d):
            r = g.random()
            if kind == "composite" and r < 0.3:
                types.append("periodic")
            elif r < 0.8:
                types.append("bounded")
            else:
                types.append(g.choice(["free", "halflo", "halfhi"]))
        spec["types"] = types
        spec["b2u"] = bool(g.random() < 0.7)
        spec["bt"] = str(g.choice(["logit", "probit"]))
        spec["affine"] = bool(g.random() < 0.5)
        spec["per_rev"] = bool(g.random() < 0.5)
        spec["pb_rev"] = bool(g.random() < 0.5)
        if spec["int_bounds"]:
            types = spec["types"] = [t if t in ("bounded", "periodic") else "bounded" for t in types]
        for j, t in enumerate(types):
            if t == "free":
                lo[j], hi[j] = -np.inf, np.inf
            elif t == "halflo":
                hi[j] = np.inf
            elif t == "halfhi":
                lo[j] = -np.inf
    return spec


def gen_points(g, spec, n, dt, seam_hair=True):
    """x (float64 values exactly representable in dt), per-dim role, interior mask."""
    d = spec["d"]
    lo, hi = spec["lo"], spec["hi"]
    kind = spec["kind"]
    roles = []
    for j in range(d):
        if kind in ("logit", "probit"):
            roles.append("bounded")
        elif kind == "periodic":
            roles.append("periodic")
        elif kind in ("composite", "flowtransform"):
            t = spec["types"][j]
            if t == "periodic":
                roles.append("periodic")
            elif t == "bounded":
                roles.append("bounded" if spec["b2u"] else "inside")
            else:
                roles.append("free")
        else:
            roles.append("free")
    x = np.empty((n, d))
    for j, r in enumerate(roles):
        if r in ("bounded", "inside"):
            w = hi[j] - lo[j]
            mode = g.integers(0, 4, n)
            u = g.uniform(0.02, 0.98, n)
            near = CLIP * 10 ** g.uniform(0.0, 4.0, n)
            u = np.where(mode == 1, near, u)
            u = np.where(mode == 2, 1 - near, u)
            inside_margin = CLIP * g.uniform(0, 1, n)
            u = np.where((mode == 3) & (g.random(n) < 0.3), inside_margin, u)
            x[:, j] = lo[j] + u * w
        elif r == "periodic":
            w = hi[j] - lo[j]
            x[:, j] = lo[j] + w * g.uniform(-5, 5, n)
            special = g.random(n)
            x[:, j] = np.where(special < 0.05, lo[j], x[:, j])
            x[:, j] = np.where((special >= 0.05) & (special < 0.1), hi[j], x[:, j])
            x[:, j] = np.where((special >= 0.1) & (special < 0.15), lo[j] - w * 1e-3, x[:, j])
            # a hair below the seam (any period away): the remainder of a tiny negative offset rounds to the full width
            # (not in fitting data: there the width-dependent side of the seam a point lands on would make the float32
            # instance and its float64 twin fit different spreads - a property of the twin comparison, not of the library)
            if seam_hair:
                kk = g.integers(-3, 4, n)
                hair = w * 10.0 ** g.uniform(-30, -15, n)
                x[:, j] = np.where((special >= 0.15) & (special < 0.22), lo[j] + kk * w - hair, x[:, j])
                x[:, j] = np.where((special >= 0.22) & (special < 0.27), np.nextafter(np.asarray(hi[j] + kk * w, dtype=dt), -np.inf).astype(float), x[:, j])
        else:
            base = 0.0
            rel = 1e-2 if dt == "float32" else 1e-8  # keep the spread resolvable in the dtype
            if np.isfinite(lo[j]):
                base = lo[j]
                sc = max(10 ** g.uniform(-2, 2), abs(base) * rel)
                x[:, j] = base + np.abs(g.standard_normal(n)) * sc + 1e-3 * sc
            elif np.isfinite(hi[j]):
                base = hi[j]
                sc = max(10 ** g.uniform(-2, 2), abs(base) * rel)
                x[:, j] = base - np.abs(g.standard_normal(n)) * sc - 1e-3 * sc
            elif spec.get("tiny_free"):
                # a quantity whose whole spread is of the order of a few machine epsilons in absolute terms (around zero)
                x[:, j] = g.standard_normal(n) * spec["tiny_free"][j]
            else:
                x[:, j] = g.standard_normal(n) * 10 ** (g.uniform(-12, 3) if dt == "float64" else g.uniform(-5, 3))
    x = x.astype(dt).astype(float)
    # clamp bounded coordinates that rounding pushed outside [lo, hi]
    for j, r in enumerate(roles):
        if r in ("bounded", "inside"):
            x[:, j] = np.clip(x[:, j], lo[j], hi[j])
    return x, roles


MODE = {"dtype_none": False}


def build(spec, xp, dtype_name, reference=False):
    from aspire import transforms as T

    kind = spec["kind"]
    lo, hi = spec["lo"], spec["hi"]
    d = spec["d"]
    as_int = False
    if MODE["dtype_none"] and not reference:
        dtype_name = None
        as_int = bool(spec.get("int_bounds"))
    if as_int:
        lo, hi = [int(v) for v in lo], [int(v) for v in hi]
    if spec.get("scalar_bounds") and kind in ("logit", "probit", "periodic"):
        lo, hi = (int(lo[0]), int(hi[0])) if as_int else (float(lo[0]), float(hi[0]))
    if kind == "identity":
        return T.IdentityTransform(xp=xp, dtype=dtype_name)
    if kind == "periodic":
        return T.PeriodicTransform(lower=lo, upper=hi, xp=xp, dtype=dtype_name)
    if kind == "logit":
        return T.LogitTransform(lower=lo, upper=hi, xp=xp, eps=CLIP, dtype=dtype_name)
    if kind == "probit":
        return T.ProbitTransform(lower=lo, upper=hi, xp=xp, eps=CLIP, dtype=dtype_name)
    if kind == "affine":
        return T.AffineTransform(xp=xp, dtype=dtype_name)
    params = [PARAM_NAMES[j] for j in range(d)]
    pb = {p: ([int(lo[j]), int(hi[j])] if as_int else [float(lo[j]), float(hi[j])]) for j, p in enumerate(params)}
    if spec.get("pb_rev"):
        pb = dict(reversed(list(pb.items())))  # a mapping has no meaningful order: bounds belong to names, not to positions
    if kind == "composite":
        per = [p for p, t in zip(params, spec["types"]) if t == "periodic"]
        if spec.get("per_rev"):
            per = per[::-1]  # the list is a set of names: its order need not follow `parameters`
        return T.CompositeTransform(
            parameters=params,
            periodic_parameters=per,
            prior_bounds=pb,
            bounded_to_unbounded=spec["b2u"],
            bounded_transform=spec["bt"],
            affine_transform=spec["affine"],
            xp=xp,
            eps=CLIP,
            dtype=dtype_name,
        )
    return T.FlowTransform(
        parameters=params,
        prior_bounds=pb,
        bounded_to_unbounded=spec["b2u"],
        bounded_transform=spec["bt"],
        affine_transform=spec["affine"],
        xp=xp,
        eps=CLIP,
        dtype=dtype_name,
    )


class Rec:
    """Recording contract: wraps forward / inverse / fit of one transform instance."""

    def __init__(self, t):
        self.t = t
        self.n = {"forward": 0, "inverse": 0, "fit": 0}

    def forward(self, x):
        self.n["forward"] += 1
        return self.t.forward(x)

    def inverse(self, y):
        self.n["inverse"] += 1
        return self.t.inverse(y)

    def fit(self, x):
        self.n["fit"] += 1
        return self.t.fit(x)


def sig_of(spec, xpn, dt):
    w = spec["hi"] - spec["lo"]
    dec = sorted({int(np.floor(np.log10(v))) if np.isfinite(v) else 99 for v in w})
    flags = (spec.get("b2u"), spec.get("bt"), spec.get("affine"), tuple(spec.get("types", [])))
    return f"{spec['kind']}|{spec['d']}|{flags}|{dec}|{xpn}|{dt}"


def judge_diag(spec, xpn, dt, g, counters, viol):
    xp = env.xp_of(xpn)
    eps = float(np.finfo(dt).eps)
    t = Rec(build(spec, xp, dt))
    t64 = t if (dt == "float64" and not MODE["dtype_none"]) else Rec(build(spec, xp, "float64", reference=True))
    kind = spec["kind"]
    nfit = int(g.choice([8, 64, 257]))
    nb = int(g.choice([1, 2, 257]))
    xfit, roles = gen_points(g, spec, nfit, dt, seam_hair=not spec.get("affine"))
    xpts, _ = gen_points(g, spec, nb, dt)
    lo, hi = spec["lo"], spec["hi"]
    d = spec["d"]

    def arr(a, dtype=dt):
        return xp.asarray(np.asarray(a, dtype=dtype))

    def where(msg):
        return f"{kind} d={d} xp={xpn} {dt} flags={spec.get('b2u')},{spec.get('bt')},{spec.get('affine')},{spec.get('types')} lo={lo.tolist()} hi={hi.tolist()} :: {msg}"

    # ---- the same instance may have been fitted before on other data (re-fit must fully replace the fitted state)
    if g.random() < 0.5:
        xold, _ = gen_points(g, spec, int(g.choice([8, 64])), dt, seam_hair=False)
        for j, r in enumerate(roles):
            if r == "free":
                xold[:, j] = xold[:, j] * 10 ** g.uniform(-3, 3) + g.normal()
        xold = xold.astype(dt).astype(float)
        if np.all(xold.std(axis=0) > 0) or not (kind == "affine" or spec.get("affine")):
            t.fit(arr(xold))
            if t64 is not t:
                t64.fit(arr(xold, "float64"))
            counters["refits"] += 1
    # ---- fit == forward (bit for bit)
    yfit = to_np(t.fit(arr(xfit)))
    if t64 is not t:
        t64.fit(arr(xfit, "float64"))
    yfwd_fit = to_np(t.forward(arr(xfit))[0])
    counters["fit_eq_checked"] += 1
    if not np.array_equal(np.asarray(yfit), np.asarray(yfwd_fit), equal_nan=True):
        viol.append({"mech": "C04/fit-differs-from-forward", "detail": where(f"max diff {np.nanmax(np.abs(yfit.astype(float)-yfwd_fit.astype(float)))!r}")})

    y_arr, lj_arr = t.forward(arr(xpts))
    y = np.asarray(to_np(y_arr), dtype=float)
    lj = np.asarray(to_np(lj_arr), dtype=float).reshape(-1)
    ljeps = float(np.finfo(np.float32 if "32" in str(to_np(lj_arr).dtype) else np.float64).eps)
    ljeps = max(ljeps, eps)
    if y.shape != xpts.shape or lj.shape != (nb,):
        viol.append({"mech": "C04/shape-wrong", "detail": where(f"forward shapes {y.shape} {lj.shape} for input {xpts.shape}")})
        return
    # interior classification (actual u of the cast values)
    interior = np.ones(nb, dtype=bool)
    for j, r in enumerate(roles):
        if r == "bounded":
            u = (xpts[:, j] - lo[j]) / (hi[j] - lo[j])
            # representable resolution of u in this dtype
            res = 4 * eps * max(abs(lo[j]), abs(hi[j])) / (hi[j] - lo[j])
            interior &= (u >= 2 * CLIP + res) & (u <= 1 - 2 * CLIP - res)
    if not np.isfinite(y).all() or not np.isfinite(lj).all():
        viol.append({"mech": "C04/non-finite-output", "detail": where(f"forward produced non-finite values for inputs inside the bounds")})
        return
    x2_arr, lji_arr = t.inverse(y_arr)
    x2 = np.asarray(to_np(x2_arr), dtype=float)
    lji = np.asarray(to_np(lji_arr), dtype=float).reshape(-1)
    if x2.shape != xpts.shape or lji.shape != (nb,):
        viol.append({"mech": "C04/shape-wrong", "detail": where(f"inverse shapes {x2.shape} {lji.shape}")})
        return

    # ---- (iv) periodic coordinates
    for j, r in enumerate(roles):
        if r != "periodic":
            continue
        w = hi[j] - lo[j]
        counters["periodic_points_judged"] += nb
        yy = y[:, j] if kind != "composite" or not spec["affine"] else x2[:, j]
        # with affine on, forward output is whitened: judge the wrapped value via the inverse image
        tolw = 8 * eps * (abs(lo[j]) + abs(hi[j]) + np.abs(xpts[:, j]) + w)
        # the interval is half-open and the statement says "always": judged exactly, against the bounds as the transform
        # holds them (cast to the width it computes in)
        odt = np.asarray(to_np(y_arr)).dtype if kind != "composite" or not spec["affine"] else np.asarray(to_np(x2_arr)).dtype
        lo_c, hi_c = float(np.asarray(lo[j]).astype(odt)), float(np.asarray(hi[j]).astype(odt))
        if (yy < lo_c).any() or (yy >= hi_c).any():
            i = int(np.argmax((yy < lo_c) | (yy >= hi_c)))
            edge = "" if (yy[i] < lo_c - tolw[i] or yy[i] >= hi_c + tolw[i]) else "/lands-on-the-excluded-upper-bound" if yy[i] >= hi_c else "/below-lower-by-rounding"
            viol.append({"mech": "C04/periodic-out-of-range" + edge, "detail": where(f"dim {j}: x={xpts[i,j]!r} wrapped to {yy[i]!r} not in [{lo_c},{hi_c})")})
        counters["periodic_points_next_to_the_seam"] += int((np.abs(((xpts[:, j] - lo[j]) / w) - np.round((xpts[:, j] - lo[j]) / w)) < 1e-9).sum())
        k = (xpts[:, j] - yy) / w
        if (np.abs(k - np.round(k)) > 64 * eps * (1 + np.abs(k)) + tolw / w).any():
            i = int(np.argmax(np.abs(k - np.round(k))))
            viol.append({"mech": "C04/periodic-not-congruent", "detail": where(f"dim {j}: x={xpts[i,j]!r} -> {yy[i]!r}, (x-y)/period={k[i]!r}")})
        # inverse of the forward image must also be the wrapped value
        k2 = (x2[:, j] - xpts[:, j]) / w
        if (np.abs(k2 - np.round(k2)) > 64 * eps * (1 + np.abs(k2)) + 4 * tolw / w).any():
            viol.append({"mech": "C04/periodic-roundtrip-not-congruent", "detail": where(f"dim {j}")})
    if kind == "periodic":
        if (lj != 0).any() or (lji != 0).any():
            viol.append({"mech": "C04/periodic-nonzero-jacobian", "detail": where(f"log J {lj[:3]} {lji[:3]}")})

    # ---- (i) round trip on interior points, non-periodic coordinates
    rt_bad = None
    for j, r in enumerate(roles):
        if r == "periodic":
            continue
        w = (hi[j] - lo[j]) if r in ("bounded", "inside") else None
        yj = np.abs(y[:, j])
        scale = (w if w is not None else 0.0) + np.abs(xpts[:, j])
        amp = 1 + yj if r == "bounded" else 1.0
        tol = 64 * eps * scale * amp + 32 * eps * (abs(lo[j]) if np.isfinite(lo[j]) else 0) + 1e-300
        if spec.get("affine") or kind == "affine":
            tol = tol * 4 + 64 * eps * (np.abs(xfit[:, j]).max())
        bad = interior & (np.abs(x2[:, j] - xpts[:, j]) > tol)
        counters["roundtrip_points_judged"] += int(interior.sum())
        if bad.any() and rt_bad is None:
            i = int(np.argmax(bad))
            rt_bad = where(f"dim {j} role {r}: x={xpts[i,j]!r} inverse(forward(x))={x2[i,j]!r} tol={np.broadcast_to(tol,(nb,))[i]:.3g}")
    if rt_bad:
        viol.append({"mech": "C04/roundtrip-broken", "detail": rt_bad})

    # ---- (iii) inverse log-J = -forward log-J on interior points
    tol_neg = 256 * ljeps * (1 + np.abs(lj)) * (1 + np.abs(y).max(axis=1))
    # conditioning of log u + log(1-u) w.r.t. the representation of x in this dtype
    for j, r in enumerate(roles):
        if r == "bounded":
            u = (xpts[:, j] - lo[j]) / (hi[j] - lo[j])
            tol_neg = tol_neg + 32 * max(eps, ljeps) * (max(abs(lo[j]), abs(hi[j])) / (hi[j] - lo[j]) + 1) / np.maximum(np.minimum(u, 1 - u), 1e-12)
    bad = interior & (np.abs(lj + lji) > tol_neg)
    counters["neg_points_judged"] += int(interior.sum())
    if bad.any():
        i = int(np.argmax(bad))
        viol.append({"mech": "C04/inverse-jacobian-not-negative-of-forward", "detail": where(f"row {i}: forward logJ={lj[i]!r} inverse logJ={lji[i]!r}")})

    # ---- (v) the inverse map far out in the latent space (bounded -> unbounded maps without whitening): where the floating
    #      point resolution still lets x move with z, the implemented inverse must move, and its reported log-Jacobian must be
    #      the log-derivative of what it returns (central differences of the implemented inverse, float64 instance)
    b2u_on = kind in ("logit", "probit") or (kind in ("composite", "flowtransform") and spec.get("b2u") and not spec.get("affine"))
    bdims = [j for j, r in enumerate(roles) if r == "bounded"]
    if b2u_on and bdims and all(r in ("bounded", "periodic", "free", "inside") for r in roles):
        probit = (kind == "probit") or spec.get("bt") == "probit"
        for _rep in range(2):
            z = np.array(y[: min(nb, 6)], dtype=float, copy=True)
            if not np.isfinite(z).all():
                break
            mag = g.uniform(3.0, 6.5, (len(z), len(bdims))) if probit else g.uniform(8.0, 24.0, (len(z), len(bdims)))
            z[:, bdims] = np.where(g.random((len(z), len(bdims))) < 0.5, -1.0, 1.0) * mag
            hz = 1e-3 * np.abs(z[:, bdims])
            x0, lj0 = t64.inverse(arr(z, "float64"))
            x0 = np.asarray(to_np(x0), dtype=float)
            lj0 = np.asarray(to_np(lj0), dtype=float).reshape(-1)
            zp, zm = z.copy(), z.copy()
            zp[:, bdims] += hz
            zm[:, bdims] -= hz
            xp_ = np.asarray(to_np(t64.inverse(arr(zp, "float64"))[0]), dtype=float)
            xm_ = np.asarray(to_np(t64.inverse(arr(zm, "float64"))[0]), dtype=float)
            w_ = (hi - lo)[bdims]
            dx = xp_[:, bdims] - xm_[:, bdims]
            u0 = (x0[:, bdims] - lo[bdims]) / w_
            room = np.minimum(u0, 1 - u0)  # distance from the bound in units of the width
            resol = 2.3e-16 * (np.maximum(np.abs(lo[bdims]), np.abs(hi[bdims])) / w_ + 1)
            counters["inverse_tail_points_judged"] += int(dx.size)
            flat = (dx == 0) & (room > 1e4 * resol) & np.isfinite(lj0)[:, None]
            if flat.any():
                i, jj = np.argwhere(flat)[0]
                viol.append({"mech": "C04/inverse-map-flat-where-its-jacobian-is-finite", "detail": where(f"dim {bdims[jj]}: z={z[i, bdims[jj]]!r}: inverse returns x={x0[i, bdims[jj]]!r} for z-h and z+h alike (distance from the bound {room[i, jj]:.3g} widths), reported inverse logJ {lj0[i]!r}")})
                break
            # derivative check where the difference carries >= 5 significant digits (only the bounded dims were perturbed)
            good = np.all(np.abs(dx) > 1e5 * 2.3e-16 * np.maximum(np.abs(x0[:, bdims]), w_), axis=1) & np.isfinite(lj0)
            if len(bdims) == d and good.any():
                ref = np.sum(np.log(np.abs(dx[good] / (2 * hz[good]))), axis=1)
                tolv = 5e-3 + 1e-5 * np.abs(ref)
                badv = np.abs(lj0[good] - ref) > tolv
                counters["inverse_tail_derivatives_judged"] += int(good.sum())
                if badv.any():
                    i = int(np.argmax(badv))
                    viol.append({"mech": "C04/inverse-jacobian-differs-from-derivative-of-inverse", "detail": where(f"z={z[good][i].tolist()}: reported {lj0[good][i]!r}, central differences of the implemented inverse {ref[i]!r}")})
                    break

    # ---- (ii) forward log-J vs central differences of the implemented map (float64)
    h = np.empty_like(xpts)
    ok = interior.copy()
    for j, r in enumerate(roles):
        if r == "bounded":
            dist = np.minimum(xpts[:, j] - lo[j], hi[j] - xpts[:, j])
            h[:, j] = 1e-4 * dist
            ok &= (xpts[:, j] - 2 * h[:, j] - lo[j]) / (hi[j] - lo[j]) > 1.5 * CLIP
            ok &= (hi[j] - xpts[:, j] - 2 * h[:, j]) / (hi[j] - lo[j]) > 1.5 * CLIP
        elif r == "periodic":
            w = hi[j] - lo[j]
            h[:, j] = 1e-6 * w
            frac = ((xpts[:, j] - lo[j]) / w) % 1.0
            ok &= (frac > 1e-4) & (frac < 1 - 1e-4)
        else:
            sc = np.abs(xpts[:, j]) + (np.abs(xfit[:, j]).std() if nfit > 1 else 1.0) + 1e-30
            h[:, j] = 1e-6 * sc
        # h must be resolvable in float64 around x
        ok &= h[:, j] > 1e3 * np.finfo(float).eps * np.abs(xpts[:, j])
    if ok.any():
        xs = xpts[ok]
        hs = h[ok]
        yp = np.asarray(to_np(t64.forward(arr(xs + hs, "float64"))[0]), dtype=float)
        ym = np.asarray(to_np(t64.forward(arr(xs - hs, "float64"))[0]), dtype=float)
        deriv = (yp - ym) / (2 * hs)
        with np.errstate(divide="ignore", invalid="ignore"):
            ref = np.sum(np.log(np.abs(deriv)), axis=1)
        got = lj[ok]
        tol = 2e-3 + 1e-6 * np.abs(ref) + 64 * ljeps * (1 + np.abs(ref)) * (1 + np.abs(y[ok]).max(axis=1))
        if dt == "float32":
            # float32 rounding of x changes u by eps*|x|/w; d logJ/du ~ 1/(u(1-u))
            for j, r in enumerate(roles):
                if r == "bounded":
                    u = (xs[:, j] - lo[j]) / (hi[j] - lo[j])
                    tol = tol + 8 * eps * (max(abs(lo[j]), abs(hi[j])) / (hi[j] - lo[j]) + 1) / np.maximum(np.minimum(u, 1 - u), 1e-12)
        if dt == "float32" and (spec.get("affine") or kind == "affine"):
            # the float32 fit of mean/std differs from the float64 twin's by the accumulated representation error of the fit data
            tol = 4 * tol + 4e-3
        counters["jac_points_judged"] += int(ok.sum())
        bad = ~(np.abs(got - ref) <= tol)
        if bad.any():
            i = int(np.argmax(np.where(bad, np.abs(got - ref), 0)))
            viol.append(
                {
                    "mech": "C04/forward-jacobian-differs-from-derivative",
                    "detail": where(f"x={xs[i].tolist()} reported logJ={got[i]!r} finite-difference log|det|={ref[i]!r} tol={tol[i]:.3g}"),
                }
            )
    counters["forward_calls"] += t.n["forward"] + (t64.n["forward"] if t64 is not t else 0)
    counters["inverse_calls"] += t.n["inverse"]
    counters["fit_calls"] += t.n["fit"]
    counters["margin_points_seen"] += int((~interior).sum())


def judge_flowprec(case, counters, viol):
    """FlowPreconditioningTransform with a real (tiny) flow: full d x d finite-difference Jacobian."""
    from aspire.transforms import FlowPreconditioningTransform

    xpn = case["xp"]
    xp = env.xp_of(xpn)
    g = np.random.default_rng(case["seed"])
    d = int(g.integers(1, 3))
    params = [PARAM_NAMES[j] for j in range(d)]
    lo = g.uniform(-3, 0, d)
    hi = lo + g.uniform(2, 6, d)
    b2u = bool(g.random() < 0.6)
    bt = str(g.choice(["logit", "probit"]))
    affine = bool(g.random() < 0.5)
    if case["backend"] == "zuko":
        fk = dict(hidden_features=[8, 8], transforms=2, seed=int(g.integers(1000)))
        fit_kwargs = dict(n_epochs=int(g.choice([0, 3])), batch_size=64)
    else:
        import jax

        fk = dict(key=jax.random.key(int(g.integers(1000))), flow_layers=2, nn_width=8)
        fit_kwargs = dict(max_epochs=int(g.choice([1, 3])), batch_size=64, show_progress=False)
    t = FlowPreconditioningTransform(
        parameters=params,
        flow_backend=case["backend"],
        prior_bounds={p: [float(lo[j]), float(hi[j])] for j, p in enumerate(params)},
        bounded_to_unbounded=b2u,
        bounded_transform=bt,
        affine_transform=affine,
        xp=xp,
        dtype="float64",
        flow_kwargs=fk,
        fit_kwargs=fit_kwargs,
    )
    mid = 0.5 * (lo + hi)
    xfit = np.clip(mid + 0.15 * (hi - lo) * g.standard_normal((256, d)), lo + 0.02 * (hi - lo), hi - 0.02 * (hi - lo))
    yfit = to_np(t.fit(xp.asarray(xfit)))
    counters["fit_calls"] += 1
    n = 24
    x = np.clip(mid + 0.12 * (hi - lo) * g.standard_normal((n, d)), lo + 0.05 * (hi - lo), hi - 0.05 * (hi - lo))
    y_arr, lj_arr = t.forward(xp.asarray(x))
    counters["forward_calls"] += 1
    y = np.asarray(to_np(y_arr), dtype=float)
    lj = np.asarray(to_np(lj_arr), dtype=float).reshape(-1)
    yf = np.asarray(to_np(t.forward(xp.asarray(xfit))[0]), dtype=float)

    def where(msg):
        return f"flowprec backend={case['backend']} xp={xpn} d={d} b2u={b2u} bt={bt} affine={affine} epochs={fit_kwargs} :: {msg}"

    counters["fit_eq_checked"] += 1
    if not np.allclose(np.asarray(yfit, dtype=float), yf, rtol=1e-9, atol=1e-9):
        viol.append({"mech": "C04/fit-differs-from-forward", "detail": where(f"max diff {np.abs(np.asarray(yfit,dtype=float)-yf).max()!r}")})
    x2_arr, lji_arr = t.inverse(y_arr)
    counters["inverse_calls"] += 1
    x2 = np.asarray(to_np(x2_arr), dtype=float)
    lji = np.asarray(to_np(lji_arr), dtype=float).reshape(-1)
    counters["roundtrip_points_judged"] += n
    if not np.allclose(x2, x, rtol=1e-6, atol=1e-6 * float(np.max(hi - lo))):
        viol.append({"mech": "C04/roundtrip-broken", "detail": where(f"max |x' - x| = {np.abs(x2-x).max()!r}")})
    counters["neg_points_judged"] += n
    if not np.allclose(lj, -lji, rtol=1e-6, atol=1e-6):
        viol.append({"mech": "C04/inverse-jacobian-not-negative-of-forward", "detail": where(f"max |lj+lji| = {np.abs(lj+lji).max()!r}")})
    # full finite-difference Jacobian
    hstep = 1e-5 * (hi - lo)
    J = np.empty((n, d, d))
    for j in range(d):
        e = np.zeros(d)
        e[j] = hstep[j]
        yp = np.asarray(to_np(t.forward(xp.asarray(x + e))[0]), dtype=float)
        ym = np.asarray(to_np(t.forward(xp.asarray(x - e))[0]), dtype=float)
        J[:, :, j] = (yp - ym) / (2 * hstep[j])
        counters["forward_calls"] += 2
    ref = np.linalg.slogdet(J)[1]
    counters["jac_points_judged"] += n
    if not np.allclose(lj, ref, rtol=1e-4, atol=2e-4):
        i = int(np.argmax(np.abs(lj - ref)))
        viol.append({"mech": "C04/forward-jacobian-differs-from-derivative", "detail": where(f"x={x[i].tolist()} reported={lj[i]!r} finite-difference={ref[i]!r}")})
    return f"flowprec|{case['backend']}|{xpn}|{d}|{b2u}|{bt}|{affine}"


def run_case(case):
    from collections import Counter

    counters = Counter()
    for k in REQUIRED_COUNTERS:
        counters[k] += 0
    viol = []
    nontrivial = set()
    if case["kind"] == "flowprec":
        sig = judge_flowprec(case, counters, viol)
        nontrivial.add(sig)
        return {"viol": _dedup(viol), "counters": dict(counters), "nontrivial": sorted(nontrivial), "sample": {"flowprec": sig}}
    g = np.random.default_rng(case["seed"])
    sample = None
    MODE["dtype_none"] = bool(case.get("dtype_none"))
    counters["specs_without_requested_dtype"] += case["n"] if MODE["dtype_none"] else 0
    for _ in range(case["n"]):
        spec = gen_spec(g, case["dtype"])
        counters["specs_with_integer_bounds"] += int(bool(spec.get("int_bounds")))
        before = counters["jac_points_judged"]
        judge_diag(spec, case["xp"], case["dtype"], g, counters, viol)
        if spec["kind"] != "identity" and counters["jac_points_judged"] > before:
            nontrivial.add(sig_of(spec, case["xp"], case["dtype"]))
        if sample is None and spec["kind"] == "composite":
            sample = {k: (v.tolist() if hasattr(v, "tolist") else v) for k, v in spec.items()}
    return {"viol": _dedup(viol), "counters": dict(counters), "nontrivial": sorted(nontrivial), "sample": sample}


def _dedup(viol):
    seen = {}
    for v in viol:
        if v["mech"] not in seen:
            seen[v["mech"]] = dict(v, count=1)
        else:
            seen[v["mech"]]["count"] += 1
    return list(seen.values())
