"""C18 - the diagnostic history is a faithful record of the run.

Monitor over recorded runs of the real loop: series lengths, stored populations (initial + one
per iteration, stamped, never repeated, equal to what the kernel returned and to what was
checkpointed at that iteration), every beta / ESS / ESS-at-1 / ratio entry recomputed from the
neighbouring stored population.  The same oracle is applied to runs resumed from every
checkpoint a reference run wrote (bytes / dict / file routes).
"""
from __future__ import annotations

import pickle

import os
import pickle

import numpy as np

from .. import recorded
from .c08 import gen_cfg

ID = "C18"
LEVEL = "exploration"
RULE = (
    "runs = same generator as C08 (targets x samplers x schedules x preconditioning x namespaces x widths x n_final_samples); for MiniPCNSMC runs "
    "every checkpoint written (cadence 1) is resumed (alternating bytes/dict routes) and the resumed history is judged by the same oracle. "
    "non-trivial = history with >=2 iterations; distinct = distinct (sampler, namespace, dtype, schedule, iterations, resumed-from set)"
)
ASSUMPTIONS = [
    "float64 reference definitions on the stored populations",
    "mcmc_acceptance may have one extra entry for the final enlargement; mcmc_autocorr is only populated by EmceeSMC",
    "stand-in kernels with non-zero acceptance (a stored population equal to its predecessor is a repeat)",
]
REQUIRED_COUNTERS = ["histories_judged", "entries_recomputed", "resumed_histories_judged", "payload_vs_history"]


def cases(tier, seed):
    n = {"quick": 60, "thorough": 2000}[tier]
    return [{"seed": [seed, 18, k]} for k in range(n)]


def run_case(case):
    from collections import Counter

    counters = Counter({k: 0 for k in REQUIRED_COUNTERS})
    viol = []
    g = np.random.default_rng(case["seed"])
    cfg = gen_cfg(g)
    cfg["ckpt_every"] = 1
    shown = {k: cfg.get(k) for k in ("xp", "dtype", "sampler", "n", "opts", "precond", "kernel_steps", "cut_below")}
    where = f"{shown}"
    base = recorded.record(cfg)
    if base.exc is not None:
        raise base.exc
    recorded.judge_history(base, where, viol, counters, mutated=base.rec.mutated)
    T = len(base.hist["beta"])
    resumed_from = []
    if cfg["sampler"] in ("smc", "emcee_smc") and T >= 2:
        its = sorted({p["iteration"] for p in base.payloads if p["iteration"] is not None and p["iteration"] < T})
        pick = its if len(its) <= 3 else [its[0], its[len(its) // 2], its[-1]]
        for it in pick:
            pay = [p for p in base.payloads if p["iteration"] == it][0]
            src = pay["bytes"] if it % 2 else pay["state"]  # dict route: the dictionary object the callback was given
            rr = recorded.record(cfg, rng=np.random.default_rng(12345 + it), resume_from=src)
            if rr.exc is not None:
                raise rr.exc
            rr.resumed_from_iteration = it
            counters["resumed_histories_judged"] += 1
            recorded.judge_history(rr, where + f" [resumed from iteration {it} via {'bytes' if it % 2 else 'dict'}]", viol, counters, mutated=None)
            resumed_from.append(it)
    if cfg["sampler"] in ("smc", "emcee_smc") and base.payloads:
        # the job ended (or was killed) after the run's closing checkpoint was written: continuing from that checkpoint has
        # nothing left to do but hand back the result - and the same record of the run, population for population
        last = base.payloads[-1]
        for label, src in (("bytes", last["bytes"]), ("dict", last["state"])):
            rr = recorded.record(cfg, rng=np.random.default_rng(4242), resume_from=src, with_callback=False)
            if rr.exc is not None:
                viol.append({"mech": "C18/continuation-from-the-closing-checkpoint-raises", "detail": f"{where} [{label}]: {type(rr.exc).__name__}: {str(rr.exc)[:200]}"})
                continue
            counters["histories_continued_from_the_closing_checkpoint"] += 1
            rr.resumed_from_iteration = T
            recorded.judge_history(rr, where + f" [continued from the closing checkpoint via {label}]", viol, counters, mutated=None)
            dd = recorded.same_runs(base, rr, what=("beta", "pops", "series"), tol=1e-6 if cfg["xp"] == "torch" else 0.0) if cfg["sampler"] == "smc" else []
            if dd:
                viol.append({"mech": "C18/history-after-continuation-from-the-closing-checkpoint-differs", "detail": f"{where} [{label}]: {dd[:3]}"})
    if cfg["sampler"] == "smc" and T >= 2:
        # interrupted (an Exception or a Ctrl-C arriving inside the user's likelihood) and continued from whatever the run left
        # in its checkpoint file and in memory: the finished history must still be a faithful record
        from ..harness import InjectedFault, InjectedInterrupt, Probe, rm_tmp, tmpfile

        k = int(base.probe.n_like_calls * g.uniform(0.3, 0.9))
        fexc = InjectedInterrupt if g.random() < 0.6 else InjectedFault
        path = tmpfile("h.h5")
        try:
            pf = Probe(base.target, fault_like_at=k, cut_below=cfg.get("cut_below"), fault_exc=fexc)
            f = recorded.record(cfg, probe=pf, with_callback=False, ckpt_path=path)
            if isinstance(f.exc, (InjectedFault, InjectedInterrupt)):
                srcs = []
                if os.path.exists(path):
                    srcs.append(("file", path))
                lb = getattr(f.sampler, "last_checkpoint_bytes", None)
                if lb is not None:
                    srcs.append(("last_checkpoint_bytes", lb))
                for label, src in srcs:
                    try:
                        it0 = pickle.loads(lb).get("iteration") if lb is not None else None
                    except Exception:  # noqa: BLE001
                        it0 = None
                    rr = recorded.record(cfg, rng=np.random.default_rng(777 + k), resume_from=src, with_callback=False)
                    if rr.exc is not None:
                        if "No checkpoint" in str(rr.exc) or isinstance(rr.exc, (KeyError, FileNotFoundError)):
                            continue  # interrupted before the first checkpoint: nothing to continue from
                        raise rr.exc
                    counters["interrupted_and_continued_histories_judged"] += 1
                    recorded.judge_history(rr, where + f" [{fexc.__name__} at likelihood call {k}, continued from {label}]", viol, counters, mutated=None)
            elif f.exc is not None:
                raise f.exc
        finally:
            rm_tmp(path)
    if cfg["sampler"] in ("smc", "emcee_smc") and g.random() < 0.4:
        again = recorded.record_again(base, rng=np.random.default_rng(cfg["rng_seed"] + 23) if cfg["sampler"] == "smc" else None)
        if again.exc is not None:
            raise again.exc
        counters["second_runs_on_same_sampler"] += 1
        recorded.judge_history(again, where + " [second fresh run on the same sampler object]", viol, counters, mutated=again.rec.mutated)
    if cfg["sampler"] in ("smc", "emcee_smc") and g.random() < 0.5:
        # ... and a further fresh run on that object under the *other* kind of schedule (adaptive <-> fixed): nothing the
        # earlier searches computed may show up in this run's record
        import copy as _copy

        prev = _copy.copy(base)
        o2 = {k: v for k, v in cfg["opts"].items() if k in ("n_final_samples",)}
        if cfg["opts"].get("adaptive", True):
            o2.update(adaptive=False, n_steps=int(g.integers(2, 6)))
        else:
            o2.update(adaptive=True, target_efficiency=float(g.uniform(0.5, 0.9)))
        prev.cfg = dict(cfg, opts=o2)
        other = recorded.record_again(prev, rng=np.random.default_rng(cfg["rng_seed"] + 29) if cfg["sampler"] == "smc" else None)
        if other.exc is not None:
            raise other.exc
        counters["further_runs_under_the_other_schedule_kind"] += 1
        recorded.judge_history(other, where + f" [further fresh run on the same sampler object with opts={o2}]", viol, counters, mutated=other.rec.mutated)
    sched = "fixed" if not cfg["opts"].get("adaptive", True) else "adaptive"
    sig = f"{cfg['sampler']}|{cfg['xp']}|{cfg['dtype']}|{sched}|{T}|{resumed_from}"
    seen = {}
    for v in viol:
        seen.setdefault(v["mech"], dict(v, count=0))["count"] += 1
    return {
        "viol": list(seen.values()),
        "counters": dict(counters),
        "nontrivial": [sig] if T >= 2 else [],
        "sample": {"cfg": shown, "beta": base.hist["beta"], "ess": base.hist["ess"], "n_pop": base.hist["n_pop"], "resumed_from": resumed_from},
    }
