"""C20 - runs are reproducible given the same explicit random sources.

Paired-execution monitor: the same scripted workload (flow construction + training, importance
sampling, MCMC, SMC) is executed twice with identical seeds / keys / generators but different
*ambient* global random state (numpy global, `random`, torch global perturbed before each run;
in a subset the second execution happens in a fresh interpreter with another PYTHONHASHSEED); all
outputs must be bit-identical.  For every way of supplying a generator (sampler constructor,
sampler.sample(), Aspire.sample_posterior) the user's generator is a recording proxy: it must
be the object the kernel receives and must record >= 1 draw per resampling.
"""
from __future__ import annotations

import hashlib
import json
import os
import subprocess
import sys

import numpy as np

ID = "C20"
LEVEL = "exploration"
RULE = (
    "pairs = {zuko, flowjax} construction+training+draws; importance sampling (analytic / zuko / flowjax proposal); MiniPCN MCMC; MiniPCNSMC with "
    "the generator supplied by constructor / sample() / sample_posterior(); BlackJAXSMC (rng + rng_key); x namespaces x preconditioning x seeds, each "
    "executed twice under different ambient random state (subset: second run in a fresh process, other PYTHONHASHSEED). non-trivial = pair whose "
    "workload draws random numbers after the ambient perturbation; distinct = distinct (workload kind, route, namespace, seed bucket, process mode)"
)
ASSUMPTIONS = [
    "EmceeSMC / Emcee accept no random source and are excluded",
    "the pair executes the same call sequence; only ambient global RNG state (and, across processes, PYTHONHASHSEED) differs",
    "torch / BLAS pinned to one thread in both runs",
]
REQUIRED_COUNTERS = ["pairs", "pairs_across_processes", "generator_routes_checked", "resamplings_accounted"]

KINDS = ["zuko_train", "flowjax_train", "is_analytic", "is_zuko", "is_flowjax", "minipcn", "smc_ctor", "smc_sample", "smc_top", "blackjax", "smc_flowprec", "flow_reload"]


def cases(tier, seed):
    n = {"quick": 70, "thorough": 1500}[tier]
    out = []
    for k in range(n):
        kind = KINDS[k % len(KINDS)]
        sub = (k % 11 == 0) if tier == "quick" else (k % 2 == 0)
        if kind == "smc_flowprec":
            sub = (k % 2 == 0) if tier == "quick" else (k % 2 == 0)
        out.append({"kind": kind, "seed": [seed, 20, k], "k": k, "subprocess": bool(sub)})
    for j in range({"quick": 1, "thorough": 4}[tier]):
        out.append({"kind": "x64_session", "seed": [seed, 201, j], "k": 10**6 + j, "subprocess": True})
    # group by kind so that a worker reuses its jit caches across the cases of its chunk
    out.sort(key=lambda c: (KINDS.index(c["kind"]) if c["kind"] in KINDS else -1, c["k"]))
    return out


CHUNK = 7


def perturb(i):
    import random

    np.random.seed(1000 + 17 * i)
    random.seed(5 + i)
    try:
        import torch

        torch.manual_seed(77 + 13 * i)
    except Exception:  # noqa: BLE001
        pass
    # consume some ambient randomness too
    np.random.random(3 + i)


def digest_arrays(d):
    h = hashlib.sha256()
    for k in sorted(d):
        v = d[k]
        h.update(k.encode())
        if v is None:
            h.update(b"None")
        else:
            a = np.ascontiguousarray(np.asarray(v))
            h.update(str(a.dtype).encode() + str(a.shape).encode() + a.tobytes())
    return h.hexdigest()


def execute(spec, which):
    """Run the workload once; returns {digest, parts{name: short digest}, info}."""
    from .. import env, recorded, smcrun
    from ..harness import Probe, RngProxy, to_np
    from ..targets import Coord, Target

    env.quiet()
    perturb(which)
    g = np.random.default_rng(spec["seed"])
    kind = spec["kind"]
    out = {}
    info = {}
    d = int(g.integers(1, 3))
    t = Target([Coord("box", -5.0, 5.0, float(g.uniform(-1, 1)), float(g.uniform(0.5, 1.0))) for _ in range(d)])
    xtrain = np.clip(np.column_stack([g.normal(c.mu, 1.3 * c.s, 160) for c in t.coords]), -4.9, 4.9)
    sseed = int(g.integers(1, 10**6))
    if spec["seed"][-1] % 3 == 0:
        sseed = 0  # the seed 0 is a seed like any other

    def real_flow_aspire(backend, xpn):
        from aspire import Aspire
        from aspire.samples import Samples

        xp = env.xp_of(xpn)
        probe = Probe(t)
        kw = dict(log_likelihood=probe.log_likelihood, log_prior=probe.log_prior, dims=d, parameters=list(t.parameters), prior_bounds=t.prior_bounds, flow_backend=backend, xp=xp)
        if backend == "zuko":
            kw.update(hidden_features=[8, 8], transforms=2, seed=sseed)
            fit_kw = dict(n_epochs=3, batch_size=32)
        else:
            import jax

            kw.update(flow_layers=2, nn_width=8, key=jax.random.key(sseed))
            fit_kw = dict(max_epochs=3, batch_size=32, show_progress=False)
        a = Aspire(**kw)
        hist = a.fit(Samples(xp.asarray(xtrain), xp=xp, parameters=list(t.parameters)), **fit_kw)
        return a, hist

    if kind in ("zuko_train", "flowjax_train"):
        backend = "zuko" if kind == "zuko_train" else "flowjax"
        a, hist = real_flow_aspire(backend, "torch" if backend == "zuko" else "jax")
        xs = np.column_stack([np.linspace(-4, 4, 25)] * d)
        out["log_prob"] = to_np(a.flow.log_prob(xs))
        x, lq = a.flow.sample_and_log_prob(16)
        out["draw_x"], out["draw_lq"] = to_np(x), to_np(lq)
        out["train_loss"] = np.asarray([float(v) for v in hist.training_loss])
        out["val_loss"] = np.asarray([float(v) for v in hist.validation_loss])
    elif kind == "smc_flowprec":
        # SMC whose preconditioner is itself a (tiny, real) flow trained during the run: its seed is the user's flow seed
        a, _ = real_flow_aspire("zuko", "torch")
        proxy = RngProxy(sseed + 1)
        proxy.record_values = False
        res = smcrun.run(a, 20, "smc", dict(rng=proxy, adaptive=False, n_steps=2, sampler_kwargs={"n_steps": 1}, preconditioning="flow",
                                            preconditioning_kwargs={"fit_kwargs": {"n_epochs": 2, "batch_size": 16}}), max_calls=500)
        if res.exc is not None:
            raise res.exc
        s = res.samples
        out.update(x=to_np(s.x), log_likelihood=to_np(s.log_likelihood), log_evidence=to_np(s.log_evidence), beta=np.asarray([float(to_np(b)) for b in res.history.beta]),
                   acc=np.asarray([float(v) for v in res.history.mcmc_acceptance]))
        info["route"] = "flow-preconditioning"
        info["user_rng_draws"] = len(proxy.draws)
    elif kind == "flow_reload":
        # life cycle rather than one call: the trained proposal is written to a file, the process goes on using random numbers,
        # the proposal is read back into a fresh instance (the seed / key travels in the file) and only then drawn from
        from aspire import Aspire
        from aspire.utils import AspireFile

        from ..harness import rm_tmp, tmpfile

        backend = "zuko" if (spec["seed"][-1] // len(KINDS)) % 2 == 0 else "flowjax"
        xpn = "torch" if backend == "zuko" else "jax"
        a, _ = real_flow_aspire(backend, xpn)
        path = tmpfile("reload.h5")
        try:
            with AspireFile(path, "w") as f:
                a.save_flow(f)
            perturb(which + 3)
            probe = Probe(t)
            b = Aspire(log_likelihood=probe.log_likelihood, log_prior=probe.log_prior, dims=d, parameters=list(t.parameters), prior_bounds=t.prior_bounds, flow_backend=backend, xp=env.xp_of(xpn))
            with AspireFile(path, "r") as f:
                b.load_flow(f)
        finally:
            rm_tmp(path)
        x, lq = b.flow.sample_and_log_prob(16)
        out["draw_x"], out["draw_lq"] = to_np(x), to_np(lq)
        s = b.sample_posterior(32, sampler="importance")
        out.update(x=to_np(s.x), log_w=to_np(s.log_w), log_evidence=to_np(s.log_evidence))
        info["lifecycle"] = f"save-load-draw/{backend}"
    elif kind in ("is_zuko", "is_flowjax"):
        backend = "zuko" if kind == "is_zuko" else "flowjax"
        xpn = str(g.choice(["numpy", "torch", "jax"]))
        a, _ = real_flow_aspire(backend, xpn)
        s = a.sample_posterior(64, sampler="importance")
        out.update(x=to_np(s.x), log_w=to_np(s.log_w), log_evidence=to_np(s.log_evidence))
    else:
        xpn = "jax" if kind == "blackjax" else str(g.choice(["numpy", "numpy", "torch", "jax"]))
        cfg = recorded.default_cfg(g, target=t.describe(), xp=xpn, dtype=None, n=int(g.integers(16, 40)))
        cfg["precond"] = recorded.random_precond(g, t)
        cfg["flow_seed"] = sseed
        if g.random() < 0.5:
            # final enlargement / reduction: one more resampling and mutation after the tempering loop
            cfg["opts"]["n_final_samples"] = int(cfg["n"] + g.choice([-7, 9, 30]))
        t2, a, probe = recorded.build(cfg)
        if kind == "is_analytic":
            s = a.sample_posterior(64, sampler="importance")
            out.update(x=to_np(s.x), log_w=to_np(s.log_w), log_evidence=to_np(s.log_evidence))
        elif kind == "minipcn":
            proxy = RngProxy(sseed)
            proxy.record_values = False
            res = smcrun.run(a, cfg["n"], "minipcn", dict(rng=proxy, n_steps=4, preconditioning=cfg["precond"]["preconditioning"]), max_calls=500)
            if res.exc is not None:
                raise res.exc
            import minipcn

            out.update(x=to_np(res.samples.x), ll=to_np(res.samples.log_likelihood))
            info["kernel_got_user_generator"] = bool(minipcn.LAST_RNG and minipcn.LAST_RNG[-1] is proxy)
            info["draws_on_user_generator"] = len(proxy.draws)
            info["route"] = "sample_posterior"
        else:
            proxy = RngProxy(sseed)
            proxy.record_values = False
            rec = smcrun.Recorder(abort_on_stall=True, keep_vectors=False)
            skw = recorded.sample_kwargs(cfg)
            skw.pop("rng", None)
            pre = {k: skw.pop(k) for k in ("preconditioning", "preconditioning_kwargs") if k in skw}
            import minipcn

            del minipcn.LAST_RNG[:]
            if kind == "smc_top":
                res = smcrun.run(a, cfg["n"], "smc", dict(skw, rng=proxy, **pre), max_calls=3000, rec=rec)
                if res.exc is not None:
                    raise res.exc
                samples, hist = res.samples, res.history
            elif kind == "blackjax":
                import jax

                cfg["sampler"] = "blackjax_smc"
                cfg["n"] = 12
                skw = recorded.sample_kwargs(cfg, rng=proxy)
                res = smcrun.run(a, cfg["n"], "blackjax_smc", skw, max_calls=3000, rec=rec)
                if res.exc is not None:
                    raise res.exc
                samples, hist = res.samples, res.history
            else:
                # direct sampler API: generator given to the constructor or to sample()
                smcrun.install()
                smcrun.REC = rec
                try:
                    if kind == "smc_ctor":
                        sm = a.init_sampler("smc", rng=proxy, **pre)
                        samples = sm.sample(cfg["n"], **skw)
                    else:
                        sm = a.init_sampler("smc", **pre)
                        samples = sm.sample(cfg["n"], rng=proxy, **skw)
                finally:
                    smcrun.REC = None
                hist = sm.history
            out.update(x=to_np(samples.x), ll=to_np(samples.log_likelihood), log_evidence=to_np(samples.log_evidence), log_evidence_error=to_np(samples.log_evidence_error))
            for name in ("beta", "ess", "log_norm_ratio", "mcmc_acceptance"):
                out["h_" + name] = np.asarray([float(to_np(v)) for v in getattr(hist, name)])
            for i, p in enumerate(hist.sample_history):
                out[f"pop{i}"] = to_np(p.x)
            n_res = len([e for e in rec.events if e[0] == "resample" and e[5] != e[1]])
            n_choice = len([dd for dd in proxy.draws if dd["m"] == "choice"])
            info["resamplings"] = n_res
            info["choice_calls_on_user_generator"] = n_choice
            info["route"] = {"smc_top": "sample_posterior", "smc_ctor": "constructor", "smc_sample": "sample()", "blackjax": "constructor(blackjax)"}[kind]
            if kind != "blackjax":
                info["kernel_got_user_generator"] = bool(minipcn.LAST_RNG) and all(r is proxy for r in minipcn.LAST_RNG)
    parts = {k: hashlib.sha256(np.ascontiguousarray(np.asarray(v)).tobytes()).hexdigest()[:12] for k, v in out.items() if v is not None}
    return {"digest": digest_arrays(out), "parts": parts, "info": info}


def run_pair_member(spec, which, in_subprocess):
    if not in_subprocess:
        return execute(spec, which)
    env_ = dict(os.environ, PYTHONHASHSEED=str(100 + which))
    p = subprocess.run([sys.executable, "-W", "ignore", "-m", "av.checks.c20", json.dumps(spec), str(which)], capture_output=True, text=True, env=env_, timeout=600)
    lines = [ln for ln in p.stdout.splitlines() if ln.startswith("C20RESULT ")]
    if p.returncode != 0 or not lines:
        raise RuntimeError(f"fresh-process member failed rc={p.returncode}: {p.stderr[-600:]}")
    return json.loads(lines[-1][len("C20RESULT ") :])


X64_SCRIPT = r"""
import os, sys, json, hashlib
os.environ.pop("JAX_ENABLE_X64", None)
os.environ["JAX_PLATFORMS"] = "cpu"
os.environ["TQDM_DISABLE"] = "1"
sys.path.insert(0, sys.argv[1])
import warnings, logging
warnings.filterwarnings("ignore")
import numpy as np
import jax, jax.numpy as jnp
from aspire import Aspire
from aspire.samples import Samples
logging.getLogger("aspire").setLevel(logging.ERROR)
seed = int(sys.argv[2])
g = np.random.default_rng(seed)
xtrain = g.normal(0.3, 0.8, (120, 2)).astype(np.float32)
def ll(s): return -0.5 * jnp.sum((s.x - 0.2) ** 2, axis=-1)
def lp(s): return jnp.where(jnp.all(jnp.abs(s.x) < 6, axis=-1), 0.0, -jnp.inf)
def run32():
    a = Aspire(log_likelihood=ll, log_prior=lp, dims=2, parameters=["a", "b"], prior_bounds={"a": [-6, 6], "b": [-6, 6]}, flow_backend="flowjax", xp=jnp,
               dtype="float32", key=jax.random.key(seed), flow_layers=2, nn_width=8)
    h = a.fit(Samples(jnp.asarray(xtrain), xp=jnp, parameters=["a", "b"]), max_epochs=2, batch_size=40, show_progress=False)
    s = a.sample_posterior(24, sampler="importance")
    m = hashlib.sha256()
    for v in (s.x, s.log_q, s.log_w, np.asarray([float(t) for t in h.training_loss])):
        m.update(np.ascontiguousarray(np.asarray(v)).tobytes())
    return m.hexdigest(), str(np.asarray(s.x).dtype)
first = run32()
between = "built"
try:
    b = Aspire(log_likelihood=ll, log_prior=lp, dims=2, parameters=["a", "b"], prior_bounds={"a": [-6, 6], "b": [-6, 6]}, flow_backend="flowjax", xp=jnp,
               dtype="float64", key=jax.random.key(seed + 1), flow_layers=2, nn_width=8)
    b.init_flow()
except Exception as exc:
    between = "raised " + type(exc).__name__
second = run32()
print("X64RESULT " + json.dumps({"first": first, "second": second, "between": between, "x64_after": bool(jax.config.jax_enable_x64)}))
"""


def x64_case(case, counters, viol):
    """A session that has not switched on 64-bit JAX types: the same float32 flowjax run before and after a float64 flow was
    built in the same interpreter. (Every other case of this check runs with 64-bit types on, as the repository's tests do.)"""
    from .. import env

    env_ = {k: v for k, v in os.environ.items() if k != "JAX_ENABLE_X64"}
    env_["PYTHONPATH"] = os.path.join(env.REPO, "src")
    p = subprocess.run([sys.executable, "-W", "ignore", "-c", X64_SCRIPT, os.path.join(env.REPO, "src"), str(int(case["seed"][-1]) + 11)], capture_output=True, text=True, env=env_, timeout=900)
    lines = [ln for ln in p.stdout.splitlines() if ln.startswith("X64RESULT ")]
    if p.returncode != 0 or not lines:
        raise RuntimeError(f"x64-off session failed rc={p.returncode}: {p.stderr[-800:]}")
    r = json.loads(lines[-1][len("X64RESULT ") :])
    counters["pairs"] += 1
    counters["pairs_across_processes"] += 1
    counters["sessions_without_64bit_jax_types"] += 1
    if r["first"] != r["second"]:
        viol.append({"mech": "C20/identically-seeded-runs-differ/after-another-flow-was-built-in-the-session", "detail": f"float32 flowjax run (key and inputs fixed) repeated after a float64 flowjax flow was built in the same interpreter ({r['between']}): outputs differ; 64-bit types switched on meanwhile: {r['x64_after']}"})
    return r


def run_case(case):
    from collections import Counter

    counters = Counter({k: 0 for k in REQUIRED_COUNTERS})
    viol = []
    if case["kind"] == "x64_session":
        r = x64_case(case, counters, viol)
        return {"viol": viol, "counters": dict(counters), "nontrivial": [f"x64_session|{case['seed'][-1]}"], "sample": {"spec": case, "info": r}}
    spec = {"kind": case["kind"], "seed": case["seed"]}
    r0 = run_pair_member(spec, 0, False)
    r1 = run_pair_member(spec, 1, case["subprocess"])
    counters["pairs"] += 1
    counters["pairs_across_processes"] += int(case["subprocess"])
    where = f"kind={case['kind']} seed={case['seed']} second-run-in-fresh-process={case['subprocess']}"
    if r0["digest"] != r1["digest"]:
        diff = sorted(k for k in set(r0["parts"]) | set(r1["parts"]) if r0["parts"].get(k) != r1["parts"].get(k))
        viol.append({"mech": f"C20/identically-seeded-runs-differ/{case['kind']}", "detail": f"{where}: outputs differing: {diff[:8]}"})
    info = r0["info"]
    if "route" in info:
        counters["generator_routes_checked"] += 1
        if info.get("kernel_got_user_generator") is False:
            viol.append({"mech": f"C20/kernel-did-not-receive-the-user-generator/{info['route']}", "detail": where})
        if "resamplings" in info:
            counters["resamplings_accounted"] += info["resamplings"]
            if info["choice_calls_on_user_generator"] < info["resamplings"] or (info["resamplings"] > 0 and info["choice_calls_on_user_generator"] == 0):
                viol.append(
                    {
                        "mech": f"C20/user-generator-not-used-for-resampling/{info['route']}",
                        "detail": f"{where}: {info['resamplings']} resamplings, {info['choice_calls_on_user_generator']} choice() calls on the supplied generator",
                    }
                )
        elif info.get("draws_on_user_generator") == 0:
            viol.append({"mech": f"C20/user-generator-never-drawn-from/{info['route']}", "detail": where})
    sig = f"{case['kind']}|{info.get('route')}|{case['seed'][-1] % 7}|{case['subprocess']}"
    seen = {}
    for v in viol:
        seen.setdefault(v["mech"], dict(v, count=0))["count"] += 1
    return {"viol": list(seen.values()), "counters": dict(counters), "nontrivial": [sig], "sample": {"spec": spec, "digest": r0["digest"][:16], "info": info}}


if __name__ == "__main__":
    from .. import env  # noqa: F401

    spec = json.loads(sys.argv[1])
    res = execute(spec, int(sys.argv[2]))
    print("C20RESULT " + json.dumps(res))
