"""Setup-time self-test of the trusted harness pieces (stand-in kernels, entry-point proposal)."""
import sys
import time

from . import env  # noqa: F401

env.assert_repo()
env.quiet()
import numpy as np  # noqa: E402


def kernel_check():
    import minipcn

    g = np.random.default_rng(5)
    # non-trivial density: correlated-free but skewed: log p = -0.5*((x-1)/0.7)^2 for x>-0.5 else -inf ; y ~ N(-2, 1.5)
    def lp(z):
        z = np.asarray(z)
        v = -0.5 * ((z[:, 0] - 1) / 0.7) ** 2 - 0.5 * ((z[:, 1] + 2) / 1.5) ** 2
        return np.where(z[:, 0] > -0.5, v, -np.inf)

    z = np.column_stack([g.uniform(0, 2, 400), g.normal(-2, 1.5, 400)])
    s = minipcn.Sampler(lp, "rw", g, 2)
    chain, h = s.sample(z, n_steps=300)
    x = chain[100:].reshape(-1, 2)
    from scipy import stats

    a = (-0.5 - 1) / 0.7
    m = stats.truncnorm.mean(a, np.inf, 1, 0.7)
    v = stats.truncnorm.var(a, np.inf, 1, 0.7)
    # effective independent draws >= walkers*few; use generous 5 sigma with n_eff = 2000
    se_m = np.sqrt(v / 2000)
    assert abs(x[:, 0].mean() - m) < 5 * se_m + 0.01, (x[:, 0].mean(), m)
    assert abs(x[:, 0].var() - v) < 0.08 * v + 0.01, (x[:, 0].var(), v)
    assert abs(x[:, 1].mean() + 2) < 0.2 and abs(x[:, 1].var() - 2.25) < 0.35
    # reproducible from its generator
    c1, _ = minipcn.Sampler(lp, "rw", np.random.default_rng(9), 2).sample(z, 5)
    c2, _ = minipcn.Sampler(lp, "rw", np.random.default_rng(9), 2).sample(z, 5)
    assert np.array_equal(c1, c2)


def entry_point_check():
    from aspire.flows import get_flow_wrapper

    cls, xp = get_flow_wrapper("avnp")
    assert cls.__name__ == "AnalyticNumpy"
    f = cls(dims=2, family="tgauss", lower=[-1, -1], upper=[1, 2], loc=[0, 0.5], scale=[1, 1], fixed=True)
    # normalisation by quadrature
    g = np.linspace(-1, 1, 801)
    h = np.linspace(-1, 2, 1201)
    G, H = np.meshgrid(g, h, indexing="ij")
    p = np.exp(f.log_prob(np.column_stack([G.ravel(), H.ravel()]))).reshape(G.shape)
    integral = np.trapezoid(np.trapezoid(p, h, axis=1), g)
    assert abs(integral - 1) < 1e-4, integral
    x, lq = f.sample_and_log_prob(1000)
    assert np.allclose(lq, f.log_prob(x))
    assert abs(f.support_mass([-1, -1], [1, 2]) - 1) < 1e-12


def main():
    t0 = time.time()
    kernel_check()
    entry_point_check()
    import icontract  # noqa: F401

    print(f"selftest ok ({time.time()-t0:.1f}s); aspire from {env.assert_repo()}")


if __name__ == "__main__":
    try:
        main()
    except Exception as e:  # noqa: BLE001
        print("SELFTEST FAILED:", repr(e))
        sys.exit(1)
