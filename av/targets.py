"""Analytic targets with closed-form evidence and posterior moments.

A target is a product over coordinates; each coordinate is one of
  box      : prior U[lo, hi], likelihood N(x; mu, sigma)            -> truncated-normal posterior
  vonmises : prior U[lo, lo+2pi) (periodic), likelihood exp(kappa cos(x - mu))
User callables (log_likelihood / log_prior) are written against the array namespace of
`samples.x`, are deterministic functions of samples.x, and are jax-traceable.
"""
from __future__ import annotations

import math

import numpy as np
from array_api_compat import array_namespace
from scipy import special


PARAM_NAMES = ["zeta", "θ/π", "chi.z", "beta_", "kappa", "chi"]  # unsorted, not all ASCII, with '/' (a ratio) and '.' (a component): names are text


class Coord:
    def __init__(self, kind, lo, hi, mu, s):
        self.kind = kind  # "box" | "vonmises"
        self.lo = float(lo)
        self.hi = float(hi)
        self.mu = float(mu)
        self.s = float(s)  # sigma (box) or kappa (vonmises)

    # closed forms -------------------------------------------------------
    def log_z(self):
        if self.kind == "box":
            a = (self.lo - self.mu) / self.s
            b = (self.hi - self.mu) / self.s
            return _log_ndtr_diff(a, b) - math.log(self.hi - self.lo)
        return math.log(special.i0e(self.s)) + self.s  # log I0(kappa)

    def post_mean_var(self):
        """mean, variance of the posterior (box) ; for vonmises: (E cos(x-mu), E sin(x-mu))."""
        if self.kind == "box":
            a = (self.lo - self.mu) / self.s
            b = (self.hi - self.mu) / self.s
            logZ = _log_ndtr_diff(a, b)
            pa = math.exp(-0.5 * a * a - 0.5 * math.log(2 * math.pi) - logZ)
            pb = math.exp(-0.5 * b * b - 0.5 * math.log(2 * math.pi) - logZ)
            m = self.mu + self.s * (pa - pb)
            v = self.s**2 * (1 + (a * pa - b * pb) - (pa - pb) ** 2)
            return m, v
        r = special.i1e(self.s) / special.i0e(self.s)
        return r, 0.0


def _log_ndtr_diff(a, b):
    """log(Phi(b) - Phi(a)) for a < b, stable in both tails."""
    if a > 0:  # use symmetry so both are in the lower tail
        a, b = -b, -a
    lb = special.log_ndtr(b)
    la = special.log_ndtr(a)
    return lb + math.log1p(-math.exp(la - lb))


class Target:
    def __init__(self, coords, name="t"):
        self.coords = list(coords)
        self.dims = len(self.coords)
        self.name = name
        # names whose declared order is NOT lexicographic (HDF5 groups list members alphabetically)
        self.parameters = [PARAM_NAMES[i] for i in range(self.dims)]
        self.prior_bounds = {p: [c.lo, c.hi] for p, c in zip(self.parameters, self.coords)}
        # listed in the opposite order to `parameters`: the list is a set of names, its order carries no meaning
        self.periodic_parameters = [p for p, c in zip(self.parameters, self.coords) if c.kind == "vonmises"][::-1]
        self.lo = np.array([c.lo for c in self.coords])
        self.hi = np.array([c.hi for c in self.coords])
        self.mu = np.array([c.mu for c in self.coords])
        self.s = np.array([c.s for c in self.coords])
        self.is_vm = np.array([c.kind == "vonmises" for c in self.coords])
        self.log_prior_const = -float(np.sum(np.log(self.hi - self.lo)))

    def describe(self):
        return {"name": self.name, "coords": [[c.kind, c.lo, c.hi, c.mu, c.s] for c in self.coords]}

    @classmethod
    def from_desc(cls, d):
        return cls([Coord(*c) for c in d["coords"]], name=d.get("name", "t"))

    # truth ----------------------------------------------------------------
    def log_z(self):
        return float(sum(c.log_z() for c in self.coords))

    def moments(self):
        """per-coordinate (m1, m2): box -> (mean, var); vonmises -> (E cos(x-mu), E sin(x-mu))."""
        return [c.post_mean_var() for c in self.coords]

    # user callables -------------------------------------------------------
    def log_prior_x(self, x):
        xp = array_namespace(x)
        lo = xp.asarray(self.lo, dtype=x.dtype)
        hi = xp.asarray(self.hi, dtype=x.dtype)
        inside = xp.all((x >= lo) & (x <= hi), axis=-1)
        c = xp.asarray(self.log_prior_const, dtype=x.dtype)
        return xp.where(inside, c, xp.asarray(-math.inf, dtype=x.dtype))

    def log_like_x(self, x):
        xp = array_namespace(x)
        mu = xp.asarray(self.mu, dtype=x.dtype)
        s = xp.asarray(self.s, dtype=x.dtype)
        vm = xp.asarray(self.is_vm)
        g = -0.5 * ((x - mu) / s) ** 2 - xp.log(s) - 0.5 * math.log(2 * math.pi)
        v = s * xp.cos(x - mu)
        return xp.sum(xp.where(vm, v, g), axis=-1)

    def log_prior(self, samples):
        return self.log_prior_x(samples.x)

    def log_likelihood(self, samples):
        return self.log_like_x(samples.x)

    # float64 numpy reference (oracle side) ---------------------------------
    def ref_log_prior(self, x):
        x = np.asarray(x, dtype=float)
        inside = np.all((x >= self.lo) & (x <= self.hi), axis=-1)
        return np.where(inside, self.log_prior_const, -np.inf)

    def ref_log_like(self, x):
        x = np.asarray(x, dtype=float)
        g = -0.5 * ((x - self.mu) / self.s) ** 2 - np.log(self.s) - 0.5 * math.log(2 * math.pi)
        v = self.s * np.cos(x - self.mu)
        return np.sum(np.where(self.is_vm, v, g), axis=-1)


def family(rng, dims=None, kinds=None):
    """Draw a random member of the analytic family (1-4 dims)."""
    d = int(dims or rng.integers(1, 5))
    coords = []
    used_lo = []
    if not kinds and d >= 2 and rng.random() < 0.12:
        # two periodic coordinates (their intervals differ with probability 2/3)
        kinds = ["vonmises", "vonmises"] + [str(rng.choice(["box", "hug"])) for _ in range(d - 2)]
    for i in range(d):
        kind = (kinds[i] if kinds else rng.choice(["box", "hug", "vonmises"], p=[0.5, 0.3, 0.2]))
        if kind == "box":
            lo = float(rng.uniform(-8, 2))
            hi = lo + float(rng.uniform(4, 12))
            mu = float(rng.uniform(lo + 0.25 * (hi - lo), hi - 0.25 * (hi - lo)))
            s = float(rng.uniform(0.3, 1.2))
            coords.append(Coord("box", lo, hi, mu, s))
        elif kind == "hug":
            lo = float(rng.uniform(-3, 1))
            hi = lo + float(rng.uniform(3, 8))
            side = rng.integers(0, 2)
            off = float(rng.uniform(-0.5, 0.3))  # mode at / slightly over the bound
            s = float(rng.uniform(0.4, 1.0))
            mu = (lo - off * s) if side == 0 else (hi + off * s)
            coords.append(Coord("box", lo, hi, mu, s))
        else:
            # several periodic coordinates of one target get different intervals
            free = [v for v in (0.0, -math.pi, 1.0) if v not in used_lo] or [0.0, -math.pi, 1.0]
            lo = float(rng.choice(free))
            used_lo.append(lo)
            hi = lo + 2 * math.pi
            mu = lo + float(rng.choice([0.0, 0.05, -0.05, 1.0]))  # mode on / near the seam
            kappa = float(rng.uniform(1.0, 6.0))
            coords.append(Coord("vonmises", lo, hi, mu, kappa))
    return Target(coords, name="fam")
