"""Regenerates /verif/MANIFEST.json from the table below (python -m av.manifest)."""
import json
import os

VERIF = os.path.dirname(os.path.dirname(os.path.abspath(__file__)))

BASE_OFF = (
    "cd /repo && env -u ASPIRE_VERIF /venv/bin/python -m pytest -ra -q -p no:cacheprovider --timeout=900 "
    "--continue-on-collection-errors"
)

# id -> (level, technique, text, note)
T = {
    "C01": (
        "exploration",
        "statistical monitor over replicated end-to-end runs vs closed-form Z/moments (two-stage 5-sigma rule)",
        "Replicated real importance/SMC runs (stand-in kernels, analytic entry-point proposals) on targets with closed-form evidence "
        "and moments; replicate means must sit inside calibrated Monte-Carlo bounds, failing cells are re-run with fresh seeds and 4x replicates.",
        "Stand-in Metropolis kernels replace minipcn/emcee/blackjax (not installed); CLT calibration; sensitivity ~2% in Z, ~0.05 sigma in moments.",
    ),
    "C02": (
        "exploration",
        "icontract post-condition on Samples.compute_weights + extended-precision reference functionals",
        "Every Samples construction in the workload is judged by a post-condition against longdouble reference functionals "
        "(log_w identity, log Z, ESS in [1,N], efficiency, scaled weights, relative error) over hostile magnitudes, spreads, ties and -inf subsets, "
        "3 namespaces x 2 widths; rejection sampling is decided from the uniforms read off a generator proxy.",
        "Reference is np.longdouble on the stored arrays; tolerances c*eps(dtype)*scale.",
    ),
    "C03": (
        "exploration",
        "quadrature monitor over executed flow.log_prob in native coordinates; draw/evaluate agreement",
        "Real zuko and flowjax flows (untrained, trained, after save/load) x bounded transform x affine x dtype: graded Gauss-Legendre quadrature "
        "of exp(log_prob) over the native support must give 1; log_q returned with draws must equal log_prob at the draws; draws respect bounds.",
        "1-2 dims only for normalisation; tiny networks; quadrature error budget 1e-4 (f64) / 2e-3 (f32).",
    ),
    "C04": (
        "exploration",
        "runtime contracts on transform forward/inverse/fit vs black-box numerical differentiation",
        "Every transform class and composite on/off combination, 3 namespaces x 2 widths, bounds over 12 orders of magnitude: round trip, "
        "forward log-Jacobian vs finite-difference derivative of the implemented map, inverse = -forward, periodic wrap range/congruence, fit == forward.",
        "Central differences in float64 of the implemented map (autodiff where jax); clipping margin excluded as stated.",
    ),
    "C05": (
        "exploration",
        "kernel tap (stand-in kernels log every (z,value)) judged at call time against the tempered formula",
        "Every value the kernel receives during real SMC/MCMC runs is compared at call time with (1-b)log q + b(log L+log pi) + log|det dx/dz| where the "
        "determinant is obtained by differentiating the transform's inverse map as a black box; -inf outside the prior; NaN -> -inf in SMC.",
        "Stand-in kernels (the nuts / hmc branches of the BlackJAX front-end run against gradient-free stand-ins; the real integrators are out of reach).",
    ),
    "C06": (
        "exploration",
        "trace monitor on beta schedule of whole runs + logical-step watchdog",
        "Scripted populations (log-weight spreads up to 1e9) and moving kernels through the real sample() loop for every schedule option: strict increase, "
        "(0,1], exact 1 at the end or max_n_steps stop, exactly n iterations for fixed n, floors/caps honoured, no exception, no stall.",
        "Termination restated as safety + bounded progress (20000 kernel invocations); watchdog firing without stall witness is inconclusive.",
    ),
    "C07": (
        "exploration",
        "post-condition contract on SMCSampler.determine_beta vs float64 reference ESS curve",
        "Each adaptive step returned by the real temperature search is judged: ESS at the new temperature meets the target in force and the step is maximal "
        "within the tolerance (or 1.0, or forced by the floor), over hostile weight vectors, current temperatures, tolerances, scalar and ramped targets.",
        "ESS(beta) is non-increasing in the step, so 'largest beta' is well defined; ramp target accepted at either end point.",
    ),
    "C08": (
        "exploration",
        "offline recomputation of every incremental ratio from recorded populations + call-order recorder",
        "From recorded runs: each log_norm_ratio equals log-mean-exp of incremental weights on the stored pre-resampling population at the temperatures used, "
        "the evidence is their sum, the error the root of summed variances; metamorphic pairs (resampling stream, n_final_samples, checkpoint cadence).",
        "float64 reference; stand-in kernels.",
    ),
    "C09": (
        "exploration",
        "generator proxy (p-vector oracle) + unique-row provenance + G-test on inferred indices",
        "The probability vector handed to the generator equals normalised incremental weights (longdouble), size/replace as requested; every output row is a "
        "bit-exact copy of one source row in all four fields; beta stamped; plus an implementation-agnostic frequency test.",
        "numpy Generator.choice trusted to draw from p.",
    ),
    "C10": (
        "exploration",
        "recomputation of cached log-densities at every boundary (returned, history, checkpoint payload)",
        "Every population handed back or recorded is re-evaluated row by row with the user's functions and the proposal; initial population size/finite prior/"
        "own log_q pairing checked against the rows the proposal emitted.",
        "User callables deterministic; stand-in kernels.",
    ),
    "C11": (
        "fault_enumeration",
        "fault injection at every likelihood call index, resume by 4 routes, bit-compare with uninterrupted run",
        "For each configuration the uninterrupted run is recorded, then for every likelihood call index a run is crashed there and resumed from its last "
        "checkpoint (bytes, dict, path, resume_from_file) with a different user generator; schedule, populations, evidence and history must equal the reference.",
        "Crash = exception from the user's likelihood; process kill mid-HDF5-write out of scope.",
    ),
    "C12": (
        "fault_enumeration",
        "file probe at every likelihood/prior call + dump_state recorder, under enumerated faults",
        "Checkpoint iterations written = cadence set plus final; after a fault at every call index the file holds config, flow and byte-for-byte the latest "
        "payload and resume_from_file works; shrinking payload sequences via direct dump_state.",
        "Crash = exception from user callables.",
    ),
    "C13": (
        "exploration",
        "round-trip monitor through real HDF5 files with observational equality",
        "Samples/SMCSamples/BaseSamples, histories, transforms, zuko/flowjax flows and Aspire configuration are saved and reloaded; fields, names, namespace, "
        "dtype, maps, densities and settings must be observationally equal; generic recursive save/load on generated dictionaries.",
        "Equality modulo container type (list/ndarray, numpy/python scalar).",
    ),
    "C14": (
        "exploration",
        "exhaustive operation sequences (bounded length) with file-level invariant probe after each operation",
        "All sequences up to length 4 (random up to 8) over fit/refit/sample/auto_checkpoint/resume alphabet against one file; after each op the file's flow "
        "must reproduce the checkpoint particles' stored log_q and the config must name the checkpoint's sampler.",
        "Analytic entry-point proposal for the exhaustive part; real flows on a subset.",
    ),
    "C15": (
        "exploration",
        "exhaustive conversion grid + dtype watch on sampler populations",
        "Every ordered namespace pair x sample class x dtype spelling x field subset through to_namespace/to_numpy/from_samples/sample_posterior(xp=); width "
        "and values preserved; requested precision is the precision of every population in runs; proposal outputs consumable in every namespace.",
        "CPU only.",
    ),
    "C16": (
        "exploration",
        "stateful reference-model testing (plain-array model) over random operation sequences",
        "Random select/concatenate/pickle/dict operation sequences on all sample classes compared field by field with a plain numpy model; evidence carried "
        "by selection; partition+concatenate restores the original.",
        "Empty selections recorded, not judged.",
    ),
    "C17": (
        "exploration",
        "temporal monitor inside the user's likelihood (prior-present-and-current) + row counting",
        "At every likelihood call in runs of all sampler types the Samples argument must already carry log_prior equal to the prior recomputed at that moment; "
        "sum of rows over calls equals the reported number of likelihood evaluations.",
        "Python-level calls counted (under jax tracing one call per trace).",
    ),
    "C18": (
        "exploration",
        "history-vs-recomputation monitor incl. resumed runs",
        "All populated series have one entry per iteration, sample_history is initial + one per iteration without repeats, and each beta/ESS/ratio equals its "
        "definition on the stored neighbour population; same for runs resumed from every checkpoint.",
        "float64 reference; stand-in kernels.",
    ),
    "C19": (
        "fault_enumeration",
        "exception injection at every body position over all context nestings to depth 3",
        "All nestings of enable_pool/auto_checkpoint with an exception injected at each body position: likelihood, prior and checkpoint defaults restored "
        "exactly, pool closed iff asked, exception propagated.",
        "Recording pool double (real multiprocessing.Pool in thorough).",
    ),
    "C20": (
        "exploration",
        "paired executions under perturbed ambient randomness + generator-proxy draw accounting",
        "Identically seeded pairs of runs (flow training, importance, MCMC, SMC) under different global RNG states must be bit-identical; the user's "
        "generator must be the object that is drawn from, for each supply route.",
        "emcee-based samplers take no generator: excluded.",
    ),
}


def main():
    built = []
    for cid in sorted(T):
        if os.path.exists(os.path.join(VERIF, "av", "checks", f"{cid.lower()}.py")):
            built.append(cid)
    checks = []
    for cid in built:
        level, tech, text, note = T[cid]
        checks.append(
            {
                "property_id": cid,
                "quick_cmd": f"./check {cid} --tier quick",
                "thorough_cmd": f"./check {cid} --tier thorough",
                "evidence_file": f"/verif/evidence/{cid}.json",
                "replay_cmd_template": f"./check {cid} --replay {{path}}",
                "engine": "av",
                "level_claimed": {"category": level, "text": text, "design_ref": f"DESIGN.md section 4, {cid}"},
                "level_note": note,
                "technique": tech,
            }
        )
    na = [
        {"property_id": cid, "reason": "check not built yet in this revision (planned: runtime monitor per DESIGN.md section 4)"}
        for cid in sorted(T)
        if cid not in built
    ]
    m = {
        "version": 1,
        "setup_cmd": "./setup.sh",
        "hooks": {
            "guard": "ASPIRE_VERIF",
            "enable": "no source hook in /repo: checks import /repo/src directly (PYTHONPATH) and patch monitors on from the harness side; "
            "ASPIRE_VERIF=1 is set by av/env.py for harness processes only",
            "baseline_off_cmd": BASE_OFF,
            "source_commits": [],
            "add_only": True,
        },
        "engines": [
            {
                "name": "av",
                "path": "/verif/av",
                "serves_properties": built,
                "kind_free_text": "runtime monitoring harness: stand-in kernels, analytic entry-point proposals, boundary probes, icontract contracts, "
                "fault injection, reference-model oracles",
            }
        ],
        "checks": checks,
        "not_applicable": na,
        "notes": "Technique family: runtime monitoring. Fixes to /repo are 'fix:' commits listed in known_findings.json; known findings print KNOWN-FINDING lines.",
    }
    with open(os.path.join(VERIF, "MANIFEST.json"), "w") as f:
        json.dump(m, f, indent=1)
    print(f"MANIFEST.json: {len(checks)} checks, {len(na)} not yet claimed")


if __name__ == "__main__":
    main()
