"""Process environment for every harness process.

Import this module FIRST (before numpy/torch/jax/aspire).  It
  * pins BLAS/torch threads to 1 and disables torch.compile (determinism + speed),
  * enables 64-bit jax (the repository's own conftest does the same),
  * puts the stand-in kernel packages, the analytic-flow entry-point package and the
    offline-installed contract libraries on sys.path,
  * makes `import aspire` resolve to the working tree under $ASPIRE_REPO (default /repo)
    and asserts that it did.
The guard variable of MANIFEST.hooks is ASPIRE_VERIF; it gates harness-side patching only
(no source hook exists in /repo).
"""
import os
import sys

VERIF = os.path.dirname(os.path.dirname(os.path.abspath(__file__)))
REPO = os.environ.get("ASPIRE_REPO", "/repo")

os.environ.setdefault("ASPIRE_VERIF", "1")
os.environ.setdefault("TORCH_COMPILE_DISABLE", "1")
os.environ.setdefault("OMP_NUM_THREADS", "1")
os.environ.setdefault("MKL_NUM_THREADS", "1")
os.environ.setdefault("OPENBLAS_NUM_THREADS", "1")
os.environ.setdefault("NUMEXPR_NUM_THREADS", "1")
os.environ.setdefault("JAX_ENABLE_X64", "True")
os.environ.setdefault("JAX_PLATFORMS", "cpu")
os.environ.setdefault("XLA_FLAGS", "--xla_cpu_multi_thread_eigen=false intra_op_parallelism_threads=1")
os.environ.setdefault("SCIPY_ARRAY_API", "1")
os.environ.setdefault("MPLBACKEND", "Agg")
os.environ.setdefault("PYTHONHASHSEED", "0")
os.environ.setdefault("TQDM_DISABLE", "1")

_paths = [
    os.path.join(REPO, "src"),
    VERIF,
    os.path.join(VERIF, "av", "stubs"),
    os.path.join(VERIF, "av", "ext"),
    os.path.join(VERIF, ".deps"),
]
for p in reversed(_paths):
    if p in sys.path:
        sys.path.remove(p)
    sys.path.insert(0, p)


def assert_repo():
    import aspire

    f = os.path.realpath(aspire.__file__)
    root = os.path.realpath(os.path.join(REPO, "src"))
    if not f.startswith(root + os.sep):
        raise RuntimeError(f"aspire imported from {f}, expected under {root}")
    return f


def quiet():
    import logging
    import warnings

    logging.getLogger("aspire").setLevel(logging.ERROR)
    logging.getLogger("jax").setLevel(logging.ERROR)
    warnings.filterwarnings("ignore")


def xp_of(name):
    if name == "numpy":
        import array_api_compat.numpy as xp
    elif name == "torch":
        import array_api_compat.torch as xp
        import torch

        torch.set_num_threads(1)
    elif name == "jax":
        import jax

        jax.config.update("jax_enable_x64", True)
        import jax.numpy as xp
    else:
        raise ValueError(name)
    return xp


class debug_logging:
    """Context: the library's logger at DEBUG (records discarded) - what a user debugging a run has switched on.
    Code guarded by logger.isEnabledFor(DEBUG) and every debug format string is executed."""

    def __enter__(self):
        import logging

        self.lg = logging.getLogger("aspire")
        self.prev = (self.lg.level, self.lg.propagate, list(self.lg.handlers))
        self.h = logging.NullHandler()
        self.lg.addHandler(self.h)
        self.lg.propagate = False
        self.lg.setLevel(logging.DEBUG)
        return self

    def __exit__(self, *exc):
        self.lg.removeHandler(self.h)
        self.lg.setLevel(self.prev[0])
        self.lg.propagate = self.prev[1]
        return False
