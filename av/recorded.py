"""Recorded SMC runs (real aspire loop, stand-in kernels, analytic proposals) and the offline
oracles shared by C08 / C10 / C11 / C17 / C18 / C20."""
from __future__ import annotations

import copy
import math
import pickle

import numpy as np

from . import env, smcrun
from .harness import Probe, RngProxy, history_to_np, make_aspire, pop_to_np, proposal_for, to_np
from .targets import Target


def default_cfg(g, **over):
    from .targets import family

    t = family(g, dims=int(g.integers(1, 4)))
    cfg = {
        "target": t.describe(),
        "xp": "numpy",
        "dtype": None,
        "sampler": "smc",
        "n": int(g.integers(24, 80)),
        "opts": {"adaptive": True, "target_efficiency": float(g.uniform(0.5, 0.9))},
        "kernel_steps": int(g.integers(1, 4)),
        "precond": {"preconditioning": "default", "kwargs": {}},
        "flow": {"truncate": False, "widen": float(g.uniform(1.5, 4.0)), "shift": float(g.uniform(-1.5, 1.5))},
        "flow_seed": int(g.integers(10**6)),
        "rng_seed": int(g.integers(10**6)),
        "ckpt_every": 1,
    }
    cfg.update(over)
    return cfg


def random_precond(g, target: Target):
    r = g.random()
    if r < 0.15:
        return {"preconditioning": "none", "kwargs": {}}
    kw = {}
    if g.random() < 0.5:
        kw["affine_transform"] = True
    if g.random() < 0.5:
        kw["bounded_to_unbounded"] = True
        kw["bounded_transform"] = str(g.choice(["logit", "probit"]))
    return {"preconditioning": "default", "kwargs": kw}


def build(cfg, probe=None, rng=None, fit=True):
    t = Target.from_desc(cfg["target"])
    if probe is None and cfg.get("cut_below") is not None:
        probe = Probe(t, cut_below=cfg["cut_below"])
    fk = proposal_for(t, truncate=cfg["flow"].get("truncate", False), widen=cfg["flow"].get("widen", 1.6), shift=cfg["flow"].get("shift", 0.0))
    if cfg["flow"].get("family"):
        fk["family"] = cfg["flow"]["family"]
    a, probe = make_aspire(t, cfg["xp"], dtype=cfg.get("dtype"), probe=probe, seed=cfg["flow_seed"], flow_kwargs=fk, fit=fit)
    return t, a, probe


BJ_ALGORITHMS = ["rwmh", "nuts", "rwmh_diag", "hmc", "rwmh"]


def blackjax_kernel_options(cfg, k):
    """Every algorithm branch of the BlackJAX front-end (scalar and per-coordinate random-walk scale, NUTS, HMC - the last two
    served by gradient-free stand-ins), chosen by the configuration's seed unless the configuration names one."""
    alg = cfg.get("bj_algorithm") or BJ_ALGORITHMS[int(cfg.get("rng_seed", 0)) % len(BJ_ALGORITHMS)]
    d = len(cfg["target"]["coords"]) if isinstance(cfg.get("target"), dict) and "coords" in cfg["target"] else None
    if alg == "rwmh_diag" and d:
        return {"algorithm": "random_walk", "n_steps": k, "sigma": [0.3 + 0.05 * j for j in range(d)]}
    if alg == "nuts":
        return {"algorithm": "nuts", "n_steps": k, "step_size": 0.3}
    if alg == "hmc":
        return {"algorithm": "hmc", "n_steps": k, "step_size": 0.3, "num_integration_steps": 3}
    return {"algorithm": "rwmh", "n_steps": k, "sigma": 0.3}


def sample_kwargs(cfg, rng=None, callback=None, resume_from=None, ckpt_path=None):
    s = cfg["sampler"]
    kw = dict(cfg["opts"])
    pc = cfg.get("precond") or {}
    if pc.get("preconditioning") is not None:
        kw["preconditioning"] = pc["preconditioning"]
        if pc.get("kwargs"):
            kw["preconditioning_kwargs"] = dict(pc["kwargs"])
    k = cfg.get("kernel_steps", 2)
    if s in ("smc", "minipcn_smc"):
        kw["rng"] = rng if rng is not None else np.random.default_rng(cfg["rng_seed"])
        kw["sampler_kwargs"] = {"n_steps": k}
        if cfg.get("n_final_steps"):
            kw["sampler_kwargs"]["n_final_steps"] = int(cfg["n_final_steps"])  # kernel steps of the final enlargement only
    elif s == "emcee_smc":
        kw["sampler_kwargs"] = {"nsteps": k, "progress": False}
    elif s == "blackjax_smc":
        import jax

        kw["rng"] = rng if rng is not None else np.random.default_rng(cfg["rng_seed"])
        kw["rng_key"] = jax.random.key(cfg["rng_seed"])
        kw["sampler_kwargs"] = blackjax_kernel_options(cfg, k)
    if callback is not None:
        kw["checkpoint_callback"] = callback
        kw["checkpoint_every"] = cfg.get("ckpt_every") or 1
    if ckpt_path is not None:
        kw["checkpoint_path"] = ckpt_path
        kw["checkpoint_every"] = cfg.get("ckpt_every") or 1
    if resume_from is not None:
        kw["resume_from"] = resume_from
    return kw


class Run:
    pass


def record(cfg, probe=None, rng=None, with_callback=True, resume_from=None, ckpt_path=None, aspire=None, fault=None, keep_resamples=False, max_calls=5000):
    """Execute one run under the recorder. Returns Run with populations (numpy), history series,
    checkpoint payloads (pickled bytes + iteration), events, exception."""
    if aspire is None:
        t, a, probe = build(cfg, probe=probe)
    else:
        a = aspire
        t = Target.from_desc(cfg["target"])
    r = Run()
    r.cfg = cfg
    r.target = t
    r.probe = probe
    r.aspire = a
    r.payloads = []

    def cb(state):
        # keep the pickled bytes (taken at call time) and the live dictionary (as a user who stores the dict would)
        r.payloads.append({"iteration": state.get("iteration"), "bytes": pickle.dumps(state), "beta": (state.get("meta") or {}).get("beta"), "state": state})

    if cfg["sampler"] == "emcee_smc":
        np.random.seed(cfg["rng_seed"] % (2**32))
    kw = sample_kwargs(cfg, rng=rng, callback=cb if with_callback else None, resume_from=resume_from, ckpt_path=ckpt_path)
    rec = smcrun.Recorder(abort_on_stall=True, keep_vectors=False)
    rec.keep_resample_pops = keep_resamples
    res = smcrun.run(a, cfg["n"], cfg["sampler"], kw, identity=False, max_calls=max_calls, rec=rec)
    r.res = res
    r.rec = rec
    r.exc = res.exc
    r.samples = res.samples
    r.history = res.history
    r.sampler = res.sampler
    r.final = None if res.samples is None else pop_to_np(res.samples)
    r.log_evidence = None if res.samples is None or res.samples.log_evidence is None else float(to_np(res.samples.log_evidence))
    r.log_evidence_error = None if res.samples is None or res.samples.log_evidence_error is None else float(to_np(res.samples.log_evidence_error))
    r.hist = history_to_np(res.history) if res.history is not None else None
    r.pops = [pop_to_np(p) for p in (getattr(res.history, "sample_history", None) or [])] if res.history is not None else []
    r.pop_ids = [id(p) for p in (getattr(res.history, "sample_history", None) or [])] if res.history is not None else []
    return r


# ------------------------------------------------------------------ oracles


def eps_of(arr):
    return float(np.finfo(np.float32 if "32" in str(arr.dtype) else np.float64).eps)


def inc_logw(pop, b1):
    s = pop["ll"].astype(float) + pop["lp"].astype(float) - pop["lq"].astype(float)
    return (b1 - pop["beta"]) * s


def judge_evidence(r, where, viol, counters):
    """C08: recompute every per-step ratio and the final sum from the recorded populations."""
    h = r.hist
    T = len(h["beta"])
    if len(r.pops) < T:
        viol.append({"mech": "C08/population-history-too-short", "detail": f"{where}: {len(r.pops)} stored populations for {T} iterations"})
        return
    # the evidence is a sum over the iterations of the run: one ratio (and one variance) per temperature step, no more
    for k in ("log_norm_ratio", "log_norm_ratio_var"):
        if len(h[k]) != T:
            viol.append({"mech": "C08/ratio-series-has-another-length-than-the-schedule", "detail": f"{where}: {len(h[k])} entries in {k} for {T} temperature steps (betas {h['beta']})"})
            return
    total = 0.0
    var_total = 0.0
    for t in range(T):
        pop = r.pops[t]
        b1 = h["beta"][t]
        lw = inc_logw(pop, b1)
        n = len(lw)
        ref = smcrun.ref_log_mean_exp(lw)
        got = h["log_norm_ratio"][t]
        eps = eps_of(pop["ll"])
        mag = float(np.max(np.abs(lw[np.isfinite(lw)]))) if np.isfinite(lw).any() else 0.0
        smag = float(np.max(np.abs(np.nan_to_num(pop["ll"].astype(float), neginf=0)) + np.abs(pop["lp"].astype(float)) + np.abs(pop["lq"].astype(float))))
        tol = eps * (64 + 64 * math.sqrt(n) + 16 * mag + 16 * abs(b1 - pop["beta"]) * smag)
        counters["ratios_recomputed"] += 1
        if not abs(got - ref) <= tol:
            viol.append(
                {
                    "mech": "C08/per-step-ratio-differs-from-recomputation",
                    "detail": f"{where}: iteration {t+1}: recorded {got!r}, log-mean-exp of incremental weights on stored population {t} (beta {pop['beta']!r}->{b1!r}) = {ref!r} (tol {tol:.3g})",
                }
            )
        total += got
        # variance: Var(w)/(N E[w]^2), ddof-agnostic
        m = np.max(lw)
        u = np.exp(lw - m)
        mu = u.mean()
        v0 = u.var() / (n * mu * mu)
        gotv = h["log_norm_ratio_var"][t]
        if not (abs(gotv - v0) <= (5.0 / n) * v0 + 4096 * eps * (1 + mag) ** 2 / n + 1e-300):
            viol.append({"mech": "C08/per-step-variance-wrong", "detail": f"{where}: iteration {t+1}: recorded var {gotv!r}, reference {v0!r}"})
        var_total += gotv
    counters["sums_checked"] += 1
    if r.log_evidence is not None:
        eps = eps_of(r.pops[0]["ll"])
        if not abs(r.log_evidence - total) <= eps * (64 * T + 16 * sum(abs(x) for x in h["log_norm_ratio"])) + 1e-300:
            viol.append({"mech": "C08/evidence-not-sum-of-ratios", "detail": f"{where}: returned log_evidence {r.log_evidence!r}, sum of recorded ratios {total!r} ({T} iterations)"})
        ref_err = math.sqrt(max(var_total, 0.0))
        if not abs(r.log_evidence_error - ref_err) <= 1e-5 * ref_err + 64 * eps:
            viol.append({"mech": "C08/evidence-error-not-root-sum-of-variances", "detail": f"{where}: returned {r.log_evidence_error!r}, sqrt(sum var) {ref_err!r}"})
    # order of events: each iteration's ratio is taken on the population before it is resampled
    ev = r.rec.events
    ratios = [e for e in ev if e[0] == "ratio"]
    counters["ratio_events"] += len(ratios)
    n_loop_iters = T - getattr(r, "resumed_from_iteration", 0)
    if not ratios and n_loop_iters > 0:
        # the library did not go through SMCSamples.log_evidence_ratio at all (e.g. the computation was inlined): the
        # order of events cannot be observed through this hook; the recomputation above does not depend on it
        counters["ratio_hook_not_reached"] += 1
    elif len(ratios) != n_loop_iters:
        viol.append({"mech": "C08/ratio-evaluated-wrong-number-of-times", "detail": f"{where}: {len(ratios)} ratio evaluations for {n_loop_iters} iterations run in this process"})
    for e in ratios:
        pid, b_to = e[1], e[3]
        i_ratio = ev.index(e)
        res_same = [i for i, x in enumerate(ev) if x[0] == "resample" and x[1] == pid and x[3] == b_to]
        if not res_same:
            viol.append({"mech": "C08/ratio-not-on-the-resampled-population", "detail": f"{where}: ratio for beta {b_to!r} taken on a population that was not the one resampled to that beta"})
        elif res_same[0] < i_ratio:
            viol.append({"mech": "C08/ratio-taken-after-resampling", "detail": f"{where}: ratio for beta {b_to!r} evaluated after resample"})


def judge_history(r, where, viol, counters, mutated=None):
    """C18: series lengths, stored populations, definitions recomputed from neighbours."""
    h = r.hist
    T = len(h["beta"])
    counters["histories_judged"] += 1
    for k in ("ess", "ess_target", "eff_target", "log_norm_ratio", "log_norm_ratio_var"):
        if len(h[k]) != T:
            viol.append({"mech": f"C18/series-length/{k}", "detail": f"{where}: len({k})={len(h[k])} for {T} iterations"})
    acc = h.get("mcmc_acceptance", [])
    n_extra = 1 if (r.cfg["opts"].get("n_final_samples") not in (None, r.cfg["n"])) else 0
    if len(acc) not in (T, T + n_extra):
        viol.append({"mech": "C18/series-length/mcmc_acceptance", "detail": f"{where}: len(mcmc_acceptance)={len(acc)} for {T} iterations (+{n_extra} enlargement)"})
    if h["n_pop"] != T + 1:
        viol.append({"mech": "C18/population-history-length", "detail": f"{where}: {h['n_pop']} stored populations for {T} iterations (expected {T+1})"})
        return
    pops = r.pops
    if pops[0]["beta"] != 0.0:
        viol.append({"mech": "C18/initial-population-not-at-beta-0", "detail": f"{where}: entry 0 has beta {pops[0]['beta']!r}"})
    for t in range(1, T + 1):
        if pops[t]["beta"] != h["beta"][t - 1]:
            viol.append({"mech": "C18/population-stamped-with-wrong-beta", "detail": f"{where}: entry {t} beta {pops[t]['beta']!r} vs history.beta[{t-1}]={h['beta'][t-1]!r}"})
        if r.pop_ids[t] == r.pop_ids[t - 1] or (pops[t]["x"].shape == pops[t - 1]["x"].shape and np.array_equal(pops[t]["x"], pops[t - 1]["x"])):
            viol.append({"mech": "C18/population-entry-repeated", "detail": f"{where}: entries {t-1} and {t} are the same population"})
    for t in range(T):
        pop = pops[t]
        b1 = h["beta"][t]
        n = pop["x"].shape[0]
        eps = eps_of(pop["ll"])
        lw = inc_logw(pop, b1)
        mag = float(np.max(np.abs(lw[np.isfinite(lw)]))) if np.isfinite(lw).any() else 0.0
        rt = eps * (64 + 64 * math.sqrt(n) + 16 * mag)
        ess = smcrun.ref_ess_curve(lw, 1.0)
        counters["entries_recomputed"] += 1
        if not abs(h["ess"][t] - ess) <= rt * ess:
            viol.append({"mech": "C18/ess-entry-differs-from-definition", "detail": f"{where}: ess[{t}]={h['ess'][t]!r}, recomputed on stored population {t}: {ess!r}"})
        lw1 = inc_logw(pop, 1.0)
        mag1 = float(np.max(np.abs(lw1[np.isfinite(lw1)]))) if np.isfinite(lw1).any() else 0.0
        e1 = smcrun.ref_ess_curve(lw1, 1.0)
        if not abs(h["ess_target"][t] - e1) <= eps * (64 + 64 * math.sqrt(n) + 16 * mag1) * e1:
            viol.append({"mech": "C18/ess_target-entry-differs-from-definition", "detail": f"{where}: ess_target[{t}]={h['ess_target'][t]!r}, recomputed {e1!r}"})
        ref = smcrun.ref_log_mean_exp(lw)
        smag = float(np.max(np.abs(np.nan_to_num(pop["ll"].astype(float), neginf=0)) + np.abs(pop["lp"].astype(float)) + np.abs(pop["lq"].astype(float))))
        if not abs(h["log_norm_ratio"][t] - ref) <= eps * (64 + 64 * math.sqrt(n) + 16 * mag + 16 * abs(b1 - pop["beta"]) * smag):
            viol.append({"mech": "C18/ratio-entry-differs-from-definition", "detail": f"{where}: log_norm_ratio[{t}]={h['log_norm_ratio'][t]!r}, recomputed {ref!r}"})
    if mutated is not None:
        # stored population t must be the population the kernel produced at iteration t
        off = len(mutated) - T - n_extra
        for t in range(1, T + 1):
            k = t - 1 + max(off, 0)
            if k < 0 or k >= len(mutated):
                continue
            if not (mutated[k]["x"].shape == pops[t]["x"].shape and np.array_equal(mutated[k]["x"], pops[t]["x"])):
                viol.append({"mech": "C18/stored-population-is-not-the-mutated-one", "detail": f"{where}: entry {t} differs from the population returned by the kernel at iteration {t}"})
    # checkpoint payload at iteration t holds population t
    for p in r.payloads:
        it = p["iteration"]
        if it is None or not (1 <= it <= T):
            continue
        st = pickle.loads(p["bytes"])
        sp = pop_to_np(st["samples"])
        if sp["x"].shape[0] == pops[it]["x"].shape[0] and sp["beta"] == pops[it]["beta"]:
            counters["payload_vs_history"] += 1
            if not np.array_equal(sp["x"], pops[it]["x"]):
                viol.append({"mech": "C18/stored-population-differs-from-checkpointed-population", "detail": f"{where}: iteration {it}"})


def same_runs(a, b, what=("beta", "pops", "evidence", "series", "final"), tol=0.0):
    """List of differences between two recorded runs (bit-exact when tol == 0)."""
    diffs = []

    def eq(x, y):
        x = np.asarray(x, dtype=float)
        y = np.asarray(y, dtype=float)
        if x.shape != y.shape:
            return False
        if tol == 0.0:
            return np.array_equal(x, y, equal_nan=True)
        return np.allclose(x, y, rtol=tol, atol=tol, equal_nan=True)

    if "beta" in what and not eq(a.hist["beta"], b.hist["beta"]):
        diffs.append(f"beta schedule {a.hist['beta'][:6]} vs {b.hist['beta'][:6]} (len {len(a.hist['beta'])} vs {len(b.hist['beta'])})")
    if "series" in what:
        for k in ("ess", "ess_target", "eff_target", "log_norm_ratio", "log_norm_ratio_var", "mcmc_acceptance"):
            if not eq(a.hist.get(k, []), b.hist.get(k, [])):
                diffs.append(f"history.{k} differs (len {len(a.hist.get(k, []))} vs {len(b.hist.get(k, []))})")
    if "pops" in what:
        if len(a.pops) != len(b.pops):
            diffs.append(f"stored population count {len(a.pops)} vs {len(b.pops)}")
        else:
            for t, (p, q) in enumerate(zip(a.pops, b.pops)):
                for f in ("x", "ll", "lp", "lq"):
                    if not eq(p[f], q[f]):
                        diffs.append(f"stored population {t} field {f} differs")
                        break
                if p["beta"] != q["beta"]:
                    diffs.append(f"stored population {t} beta {p['beta']} vs {q['beta']}")
    if "evidence" in what:
        if not eq([a.log_evidence, a.log_evidence_error], [b.log_evidence, b.log_evidence_error]):
            diffs.append(f"log_evidence {a.log_evidence!r}+-{a.log_evidence_error!r} vs {b.log_evidence!r}+-{b.log_evidence_error!r}")
    if "final" in what and a.final is not None and b.final is not None:
        for f in ("x", "ll", "lp"):
            if not eq(a.final[f], b.final[f]):
                diffs.append(f"final samples field {f} differs")
                break
    return diffs


def record_again(prev, rng=None):
    """A second *fresh* run on the very same sampler object of a recorded run (no new sampler is built)."""
    import inspect

    cfg = prev.cfg
    sampler = prev.sampler
    r = Run()
    r.cfg, r.target, r.probe, r.aspire = cfg, prev.target, prev.probe, prev.aspire
    r.payloads = []

    def cb(state):
        r.payloads.append({"iteration": state.get("iteration"), "bytes": pickle.dumps(state), "beta": (state.get("meta") or {}).get("beta"), "state": state})

    kw = sample_kwargs(cfg, rng=rng, callback=cb)
    for k in ("preconditioning", "preconditioning_kwargs"):
        kw.pop(k, None)
    accepted = inspect.signature(sampler.sample).parameters
    kw = {k: v for k, v in kw.items() if k in accepted}
    rec = smcrun.Recorder(abort_on_stall=True, keep_vectors=False)
    smcrun.install()
    smcrun.REC = rec
    import minipcn

    minipcn.N_CALLS = 0
    minipcn.MAX_CALLS = 5000
    exc = None
    samples = None
    try:
        samples = sampler.sample(cfg["n"], **kw)
    except Exception as e:  # noqa: BLE001
        exc = e
    finally:
        smcrun.REC = None
        minipcn.MAX_CALLS = None
    r.rec, r.exc, r.samples, r.history, r.sampler = rec, exc, samples, sampler.history, sampler
    r.res = None
    r.final = None if samples is None else pop_to_np(samples)
    r.log_evidence = None if samples is None or samples.log_evidence is None else float(to_np(samples.log_evidence))
    r.log_evidence_error = None if samples is None or samples.log_evidence_error is None else float(to_np(samples.log_evidence_error))
    r.hist = history_to_np(sampler.history)
    r.pops = [pop_to_np(p) for p in (getattr(sampler.history, "sample_history", None) or [])]
    r.pop_ids = [id(p) for p in (getattr(sampler.history, "sample_history", None) or [])]
    return r
