"""Shared workload builders and L1 boundary probes."""
from __future__ import annotations

import math
import os

import numpy as np

from . import env
from .targets import Target


class InjectedFault(Exception):
    """Raised by a probe to emulate an interruption at a chosen call index."""


class InjectedInterrupt(KeyboardInterrupt):
    """An interruption that is not an Exception subclass: a Ctrl-C arriving inside the user's callable."""


def to_np(a):
    if a is None:
        return None
    if hasattr(a, "detach"):
        a = a.detach().cpu().numpy()
    return np.asarray(a)


def ns_name(xp):
    n = getattr(xp, "__name__", str(xp))
    if "torch" in n:
        return "torch"
    if "jax" in n:
        return "jax"
    return "numpy"


def width_of(arr):
    """float width in bits of an array of any namespace."""
    s = str(getattr(arr, "dtype", ""))
    for w in ("64", "32", "16"):
        if s.endswith(w):
            return int(w)
    return None


class Probe:
    """L1 boundary probe: the user's log_prior / log_likelihood as aspire sees them.

    Records every call (kind, rows, whether the Samples carried log_prior, agreement of the
    carried log_prior with the prior recomputed at call time), supports fault injection at a
    likelihood / prior call index and arbitrary `on_call` observers (file probes).
    """

    def __init__(self, target: Target, fault_like_at=None, fault_prior_at=None, recipe=False, record_x=False, cut_below=None, fault_exc=InjectedFault, prior_nan_outside=False):
        self.fault_exc = fault_exc
        self.prior_nan_outside = prior_nan_outside
        self.t = target
        # hard cut: the likelihood is exactly zero (log L = -inf) for x0 < cut_below, inside the prior support
        self.cut_below = cut_below
        self.fault_like_at = fault_like_at
        self.fault_prior_at = fault_prior_at
        self.recipe = recipe
        self.record_x = record_x
        self.n_like_calls = 0
        self.n_prior_calls = 0
        self.like_rows = 0
        self.asked_rows = 0
        self.events = []  # ("L"|"P", rows)
        self.c17 = {"calls": 0, "missing_prior": 0, "len_mismatch": 0, "value_mismatch": 0, "traced": 0}
        self.c17_witness = None
        self.observers = []
        self.xs = []

    # --- helpers
    @staticmethod
    def _is_traced(x):
        return type(x).__name__.endswith("Tracer") or "Tracer" in type(x).__name__

    def log_prior(self, samples):
        k = self.n_prior_calls
        self.n_prior_calls += 1
        for ob in self.observers:
            ob("P", k, samples)
        if self.fault_prior_at is not None and k == self.fault_prior_at:
            raise self.fault_exc(f"prior call {k}")
        self.events.append(("P", int(samples.x.shape[0])))
        lp = self.t.log_prior_x(samples.x)
        if self.prior_nan_outside:
            # a prior written without an explicit support test (log of a negative number, ...): NaN instead of -inf outside
            from array_api_compat import array_namespace

            xp = array_namespace(lp)
            lp = xp.where(xp.isfinite(lp), lp, xp.asarray(math.nan, dtype=lp.dtype))
        return lp

    def log_likelihood(self, samples):
        k = self.n_like_calls
        self.n_like_calls += 1
        for ob in self.observers:
            ob("L", k, samples)
        self.asked_rows += int(samples.x.shape[0])  # points the callable was asked for, whether or not it then fails
        if self.fault_like_at is not None and k == self.fault_like_at:
            raise self.fault_exc(f"likelihood call {k}")
        x = samples.x
        n = int(x.shape[0])
        self.like_rows += n
        self.events.append(("L", n))
        if self.record_x:
            self.xs.append(to_np(x).copy() if not self._is_traced(x) else None)
        # C17 temporal monitor
        self.c17["calls"] += 1
        lp = getattr(samples, "log_prior", None)
        if lp is None:
            self.c17["missing_prior"] += 1
            self.c17_witness = self.c17_witness or f"call {k}: samples.log_prior is None ({n} rows)"
        elif self._is_traced(x) or self._is_traced(lp):
            self.c17["traced"] += 1
            if tuple(lp.shape) != (n,):
                self.c17["len_mismatch"] += 1
                self.c17_witness = self.c17_witness or f"call {k}: traced prior shape {tuple(lp.shape)} for {n} rows"
        else:
            lpn = to_np(lp).reshape(-1)
            if lpn.shape[0] != n:
                self.c17["len_mismatch"] += 1
                self.c17_witness = self.c17_witness or f"call {k}: prior has {lpn.shape[0]} entries for {n} rows"
            else:
                ref = self.t.ref_log_prior(to_np(x))
                same_inf = np.isinf(ref) == np.isinf(lpn)
                fin = np.isfinite(ref) & np.isfinite(lpn)
                ok = same_inf.all() and np.allclose(lpn[fin], ref[fin], rtol=1e-5, atol=1e-5)
                if not ok:
                    self.c17["value_mismatch"] += 1
                    self.c17_witness = self.c17_witness or f"call {k}: carried log_prior differs from prior(x) recomputed at call time"
        ll = self.t.log_like_x(x)
        if self.cut_below is not None:
            from array_api_compat import array_namespace

            xp = array_namespace(x)
            ll = xp.where(x[:, 0] < self.cut_below, xp.asarray(-math.inf, dtype=ll.dtype), ll)
        if self.recipe and lp is not None and not self._is_traced(x):
            from array_api_compat import array_namespace

            xp = array_namespace(x)
            return xp.where(xp.isfinite(xp.asarray(lp, dtype=ll.dtype)), ll, xp.asarray(-math.inf, dtype=ll.dtype))
        return ll


class RngProxy:
    """User-supplied random generator as aspire sees it: forwards to a numpy Generator and
    records every draw (method, size, p-vector for choice, returned value)."""

    def __init__(self, seed):
        self._g = np.random.default_rng(seed)
        self.draws = []
        self.record_values = True

    @property
    def bit_generator(self):
        return self._g.bit_generator

    def choice(self, a, size=None, replace=True, p=None, **kw):
        out = self._g.choice(a, size=size, replace=replace, p=p, **kw)
        self.draws.append(
            {
                "m": "choice",
                "a": a if np.isscalar(a) else len(a),
                "size": size,
                "replace": replace,
                "p": None if p is None else np.array(p, dtype=float, copy=True),
                "out": np.array(out, copy=True),
            }
        )
        return out

    def __getattr__(self, name):
        attr = getattr(self._g, name)
        if callable(attr):

            def wrapped(*a, **k):
                out = attr(*a, **k)
                self.draws.append({"m": name, "size": k.get("size", a[0] if a and name in ("uniform", "normal") and False else k.get("size")), "out": np.array(out, copy=True) if self.record_values else None})
                return out

            return wrapped
        return attr

    def __reduce__(self):  # deep-copied inside checkpoint payloads by some paths
        return (_rebuild_proxy, (self._g.bit_generator.state,))


def _rebuild_proxy(state):
    p = RngProxy(0)
    p._g.bit_generator.state = state
    return p


FLOW_OF = {"numpy": "avnp", "torch": "avtorch", "jax": "avjax"}


def proposal_for(target: Target, rng=None, family="gauss", widen=1.6, shift=0.0, truncate=False):
    """Over-dispersed analytic proposal parameters for a target (bounded weights)."""
    loc, scale, lower, upper = [], [], [], []
    for c, (m1, m2) in zip(target.coords, target.moments()):
        if c.kind == "box":
            sd = math.sqrt(max(m2, 1e-12))
            loc.append(m1 + shift * sd)
            scale.append(widen * max(sd, 0.35 * c.s))
        else:
            # periodic: proposal is a broad gaussian around the mode covering the circle
            loc.append(0.5 * (c.lo + c.hi))
            scale.append(widen * 1.3)
        lower.append(c.lo)
        upper.append(c.hi)
    kw = dict(family=("tgauss" if truncate else family), loc=loc, scale=scale, fixed=True)
    if truncate:
        kw.update(lower=lower, upper=upper)
    return kw


def make_aspire(
    target: Target,
    xp_name="numpy",
    dtype=None,
    probe: Probe | None = None,
    flow_xp=None,
    flow_kwargs=None,
    seed=0,
    fit=True,
    **aspire_kwargs,
):
    """Aspire instance on an analytic entry-point proposal (fitted unless fit=False)."""
    from aspire import Aspire
    from aspire.samples import Samples

    xp = env.xp_of(xp_name)
    probe = probe or Probe(target)
    fk = dict(proposal_for(target))
    fk.update(flow_kwargs or {})
    fk.setdefault("seed", seed)
    backend = FLOW_OF[flow_xp or xp_name]
    kw = dict(
        log_likelihood=probe.log_likelihood,
        log_prior=probe.log_prior,
        dims=target.dims,
        parameters=list(target.parameters),
        prior_bounds={k: list(v) for k, v in target.prior_bounds.items()},
        periodic_parameters=list(target.periodic_parameters) or None,
        flow_backend=backend,
        xp=xp,
        dtype=dtype,
    )
    kw.update(aspire_kwargs)
    kw.update(fk)
    a = Aspire(**kw)
    if fit:
        g = np.random.default_rng([seed, 77])
        x = np.stack(
            [
                np.clip(g.normal(c.mu, max(c.s if c.kind == "box" else 1 / math.sqrt(c.s), 1e-3), 64), c.lo + 1e-3, c.hi - 1e-3)
                for c in target.coords
            ],
            axis=1,
        )
        a.fit(Samples(x, xp=xp, parameters=list(target.parameters)))
    return a, probe


def history_to_np(h):
    out = {}
    for k in ("beta", "ess", "ess_target", "eff_target", "log_norm_ratio", "log_norm_ratio_var", "mcmc_acceptance"):
        v = getattr(h, k, None)
        if v is not None:
            out[k] = [float(to_np(e)) for e in v]
    out["n_pop"] = len(getattr(h, "sample_history", []) or [])
    return out


def pop_to_np(s):
    d = {"x": to_np(s.x), "ll": to_np(s.log_likelihood), "lp": to_np(s.log_prior), "lq": to_np(getattr(s, "log_q", None))}
    b = getattr(s, "beta", None)
    d["beta"] = None if b is None else float(to_np(b))
    return d


def lse(a):
    a = np.asarray(a, dtype=float)
    m = np.max(a)
    if not np.isfinite(m):
        return float(m)
    return float(m + np.log(np.sum(np.exp(a - m))))


def ref_ess(logw):
    logw = np.asarray(logw, dtype=float)
    return math.exp(2 * lse(logw) - lse(2 * logw))


def tmpfile(name):
    d = os.environ.get("AV_TMP") or "/dev/shm" if os.path.isdir("/dev/shm") else None
    import tempfile

    dd = tempfile.mkdtemp(prefix="av-", dir=d)
    return os.path.join(dd, name)


def rm_tmp(path):
    import shutil

    shutil.rmtree(os.path.dirname(path), ignore_errors=True)
