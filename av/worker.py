import sys

from . import env  # noqa: F401  (must be first)
from .runner import worker_main

if __name__ == "__main__":
    worker_main(sys.argv[1:])
