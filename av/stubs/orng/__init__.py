"""Stand-in for the `orng` package: ArrayRNG(backend) wrapping a numpy Generator."""
import numpy as np

__version__ = "0.0-standin"
CREATED = []


class ArrayRNG:
    def __init__(self, backend="numpy", seed=None, **kwargs):
        self.backend = backend
        self._g = np.random.default_rng(seed)
        CREATED.append(self)
        del CREATED[:-8]

    @property
    def bit_generator(self):
        return self._g.bit_generator

    def __getattr__(self, name):
        return getattr(self._g, name)
