"""Stand-in for the `minipcn` package (not installed in this sandbox).

Same call surface as aspire uses:
    Sampler(log_prob_fn, step_fn, rng, dims, target_acceptance_rate, xp=None)
        .sample(z0, n_steps) -> (chain[n_steps+1, N, d], history)   history.acceptance_rate: list
The kernel is a vectorised random-walk Metropolis update with complementary-ensemble step
scales: walkers are split in two halves; the half being moved uses a per-dimension scale
computed from the *other* half, so the proposal is symmetric and independent of the moved
walkers and every update leaves prod_i pi(z_i) exactly invariant for whatever density
log_prob_fn returns.

Harness controls (module globals, set by checks):
    IDENTITY   - if True no walker ever moves (scripted populations)
    TAPS       - callables tap(z, value, sampler) invoked on every evaluation the kernel makes
    N_CALLS    - number of Sampler.sample invocations (logical-step watchdog)
    MAX_CALLS  - raise WatchdogExceeded when N_CALLS exceeds it (None = off)
"""
import numpy as np

__version__ = "0.0-standin"

IDENTITY = False
TAPS = []
N_CALLS = 0
MAX_CALLS = None
LAST_RNG = []


class WatchdogExceeded(RuntimeError):
    pass


class _History:
    def __init__(self):
        self.acceptance_rate = []


def _to_np(a):
    if hasattr(a, "detach"):
        a = a.detach().cpu().numpy()
    return np.asarray(a)


class Sampler:
    def __init__(
        self,
        log_prob_fn,
        step_fn="tpcn",
        rng=None,
        dims=None,
        target_acceptance_rate=0.234,
        xp=None,
        **kwargs,
    ):
        self.log_prob_fn = log_prob_fn
        self.step_fn = step_fn
        self.rng = rng if rng is not None else np.random.default_rng()
        self.dims = dims
        self.target_acceptance_rate = target_acceptance_rate
        self.xp = xp
        LAST_RNG.append(self.rng)
        del LAST_RNG[:-4]

    def _eval(self, z_np, like):
        if self.xp is not None:
            z = self.xp.asarray(z_np, dtype=getattr(like, "dtype", None))
        else:
            z = z_np
        before = np.array(z_np, copy=True)
        val = self.log_prob_fn(z)
        # the kernel's own array must not be modified by the target it calls
        self.last_input_mutated = not np.array_equal(before, _to_np(z).astype(float), equal_nan=True)
        for tap in list(TAPS):
            tap(before, val, self)
        v = _to_np(val).astype(float).reshape(-1)
        if v.shape[0] != z_np.shape[0]:
            raise ValueError(f"log_prob_fn returned {v.shape[0]} values for {z_np.shape[0]} points")
        return v

    def sample(self, z0, n_steps=10, **kwargs):
        global N_CALLS
        N_CALLS += 1
        if MAX_CALLS is not None and N_CALLS > MAX_CALLS:
            raise WatchdogExceeded(f"kernel invoked {N_CALLS} times")
        like = z0
        z = _to_np(z0).astype(float).copy()
        if z.ndim == 1:
            z = z[:, None]
        n, d = z.shape
        hist = _History()
        chain = np.empty((n_steps + 1, n, d))
        chain[0] = z
        lp = self._eval(z, like)
        half = n // 2
        groups = [np.arange(0, half), np.arange(half, n)] if half >= 1 else [np.arange(n)]
        for t in range(n_steps):
            acc = 0
            if not IDENTITY:
                for g, idx in enumerate(groups):
                    other = groups[1 - g] if len(groups) == 2 else idx
                    if len(groups) == 2 and len(other) >= 2:
                        s = z[other].std(axis=0)
                        s = np.where(np.isfinite(s) & (s > 0), s, 0.5)
                    else:
                        s = np.full(d, 0.5)
                    scale = 2.38 / np.sqrt(d) * s * (0.6 if t % 2 else 0.15)
                    eps = np.asarray(self.rng.normal(size=(len(idx), d)), dtype=float)
                    prop = z[idx] + scale * eps
                    lp_prop = self._eval(prop, like)
                    log_u = np.log(np.asarray(self.rng.uniform(size=len(idx)), dtype=float))
                    with np.errstate(invalid="ignore"):
                        ok = log_u < (lp_prop - lp[idx])
                    ok = ok & np.isfinite(lp_prop)
                    z[idx[ok]] = prop[ok]
                    lp[idx[ok]] = lp_prop[ok]
                    acc += int(ok.sum())
            chain[t + 1] = z
            hist.acceptance_rate.append(acc / n)
        if self.xp is not None:
            out = self.xp.asarray(chain, dtype=getattr(like, "dtype", None))
        else:
            out = chain
        return out, hist
