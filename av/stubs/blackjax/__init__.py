"""Stand-in for `blackjax` (not installed): `rmh` (random-walk Metropolis with a user proposal generator) and gradient-free
stand-ins with the call surface of `nuts` / `hmc`; jax-traceable, same init/step surface and info fields."""
from typing import NamedTuple

import jax
import jax.numpy as jnp

__version__ = "0.0-standin"


class RWState(NamedTuple):
    position: jax.Array
    logdensity: jax.Array


class RWInfo(NamedTuple):
    acceptance_rate: jax.Array
    is_accepted: jax.Array
    proposal: jax.Array


class SamplingAlgorithm(NamedTuple):
    init: callable
    step: callable


def rmh(logdensity_fn, proposal_generator, proposal_logdensity_fn=None):
    def init(position, rng_key=None):
        return RWState(position, logdensity_fn(position))

    def step(rng_key, state):
        k1, k2 = jax.random.split(rng_key)
        prop = proposal_generator(k1, state.position)
        lp = logdensity_fn(prop)
        log_u = jnp.log(jax.random.uniform(k2, dtype=jnp.result_type(float)))
        delta = lp - state.logdensity
        ok = jnp.logical_and(log_u < delta, jnp.isfinite(lp))
        new_pos = jnp.where(ok, prop, state.position)
        new_lp = jnp.where(ok, lp, state.logdensity)
        info = RWInfo(jnp.minimum(1.0, jnp.exp(jnp.where(jnp.isnan(delta), -jnp.inf, delta))), ok, prop)
        return RWState(new_pos, new_lp), info

    return SamplingAlgorithm(init, step)


class GradInfo(NamedTuple):
    """what the gradient-based kernels of the real package report: an acceptance *rate*, no `is_accepted` flag (NUTS)."""

    acceptance_rate: jax.Array
    is_divergent: jax.Array


class HMCInfo(NamedTuple):
    acceptance_rate: jax.Array
    is_accepted: jax.Array
    is_divergent: jax.Array


CALLS = {"nuts": 0, "hmc": 0, "rmh": 0}


def _gradient_free(logdensity_fn, step_size, inverse_mass_matrix, info_cls):
    """Stand-in for the gradient-based kernels: a symmetric random-walk Metropolis step with per-coordinate scale
    step_size * sqrt(diag(M^-1)).  Exactly invariant for `logdensity_fn` (which is all the library relies on); it does not
    need the density to be differentiable, so every proposal / prior combination of the workloads can be used."""
    imm = jnp.asarray(inverse_mass_matrix)
    scale = step_size * jnp.sqrt(jnp.diag(imm) if imm.ndim == 2 else imm)

    def init(position, rng_key=None):
        return RWState(position, logdensity_fn(position))

    def step(rng_key, state):
        k1, k2 = jax.random.split(rng_key)
        prop = state.position + scale * jax.random.normal(k1, state.position.shape, dtype=state.position.dtype)
        lp = logdensity_fn(prop)
        log_u = jnp.log(jax.random.uniform(k2, dtype=jnp.result_type(float)))
        delta = lp - state.logdensity
        ok = jnp.logical_and(log_u < delta, jnp.isfinite(lp))
        rate = jnp.minimum(1.0, jnp.exp(jnp.where(jnp.isnan(delta), -jnp.inf, delta)))
        new = RWState(jnp.where(ok, prop, state.position), jnp.where(ok, lp, state.logdensity))
        if info_cls is GradInfo:
            return new, GradInfo(rate, jnp.asarray(False))
        return new, HMCInfo(rate, ok, jnp.asarray(False))

    return SamplingAlgorithm(init, step)


def nuts(logdensity_fn, step_size, inverse_mass_matrix, **kw):
    CALLS["nuts"] += 1
    return _gradient_free(logdensity_fn, step_size, inverse_mass_matrix, GradInfo)


def hmc(logdensity_fn, step_size, inverse_mass_matrix, num_integration_steps=10, **kw):
    CALLS["hmc"] += 1
    return _gradient_free(logdensity_fn, step_size, inverse_mass_matrix, HMCInfo)
