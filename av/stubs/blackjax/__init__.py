"""Stand-in for `blackjax` (not installed): only `rmh` (random-walk Metropolis with a
user proposal generator), jax-traceable, same init/step surface and info.is_accepted."""
from typing import NamedTuple

import jax
import jax.numpy as jnp

__version__ = "0.0-standin"


class RWState(NamedTuple):
    position: jax.Array
    logdensity: jax.Array


class RWInfo(NamedTuple):
    acceptance_rate: jax.Array
    is_accepted: jax.Array
    proposal: jax.Array


class SamplingAlgorithm(NamedTuple):
    init: callable
    step: callable


def rmh(logdensity_fn, proposal_generator, proposal_logdensity_fn=None):
    def init(position, rng_key=None):
        return RWState(position, logdensity_fn(position))

    def step(rng_key, state):
        k1, k2 = jax.random.split(rng_key)
        prop = proposal_generator(k1, state.position)
        lp = logdensity_fn(prop)
        log_u = jnp.log(jax.random.uniform(k2, dtype=jnp.result_type(float)))
        delta = lp - state.logdensity
        ok = jnp.logical_and(log_u < delta, jnp.isfinite(lp))
        new_pos = jnp.where(ok, prop, state.position)
        new_lp = jnp.where(ok, lp, state.logdensity)
        info = RWInfo(jnp.minimum(1.0, jnp.exp(jnp.where(jnp.isnan(delta), -jnp.inf, delta))), ok, prop)
        return RWState(new_pos, new_lp), info

    return SamplingAlgorithm(init, step)


def nuts(*a, **k):
    raise NotImplementedError("stand-in blackjax provides rmh only")


def hmc(*a, **k):
    raise NotImplementedError("stand-in blackjax provides rmh only")
