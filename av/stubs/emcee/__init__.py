"""Stand-in for `emcee` (not installed): EnsembleSampler with the call surface aspire uses.

Random-walk Metropolis with complementary-ensemble scales (see the minipcn stand-in); draws
come from a RandomState seeded from numpy's *global* state, as real emcee does.
"""
import numpy as np

__version__ = "0.0-standin"
IDENTITY = False
TAPS = []
N_CALLS = 0
MAX_CALLS = None


class WatchdogExceeded(RuntimeError):
    pass


def _to_np(a):
    if hasattr(a, "detach"):
        a = a.detach().cpu().numpy()
    return np.asarray(a)


class EnsembleSampler:
    def __init__(self, nwalkers, ndim, log_prob_fn, args=None, kwargs=None, vectorize=False, moves=None, **kw):
        self.nwalkers = nwalkers
        self.ndim = ndim
        self.log_prob_fn = log_prob_fn
        self.args = tuple(args or ())
        self.kwargs = dict(kwargs or {})
        self.vectorize = vectorize
        self.moves = moves
        self._random = np.random.RandomState(np.random.randint(0, 2**31 - 1))
        self._chain = None
        self.acceptance_fraction = np.zeros(nwalkers)

    def _eval(self, z):
        before = np.array(z, copy=True)
        if self.vectorize:
            val = self.log_prob_fn(z, *self.args, **self.kwargs)
        else:
            val = np.array([self.log_prob_fn(zi, *self.args, **self.kwargs) for zi in z])
        self.last_input_mutated = not np.array_equal(before, z, equal_nan=True)
        for tap in list(TAPS):
            tap(before, val, self)
        v = _to_np(val).astype(float).reshape(-1)
        if v.shape[0] != z.shape[0]:
            raise ValueError("log_prob_fn returned wrong number of values")
        return v

    def run_mcmc(self, initial_state, nsteps, progress=False, **kwargs):
        global N_CALLS
        N_CALLS += 1
        if MAX_CALLS is not None and N_CALLS > MAX_CALLS:
            raise WatchdogExceeded(f"kernel invoked {N_CALLS} times")
        z = _to_np(initial_state).astype(float).copy()
        n, d = z.shape
        lp = self._eval(z)
        chain = np.empty((nsteps, n, d))
        acc = np.zeros(n)
        half = n // 2
        groups = [np.arange(0, half), np.arange(half, n)] if half >= 1 else [np.arange(n)]
        for t in range(nsteps):
            if not IDENTITY:
                for g, idx in enumerate(groups):
                    other = groups[1 - g] if len(groups) == 2 else idx
                    if len(groups) == 2 and len(other) >= 2:
                        s = z[other].std(axis=0)
                        s = np.where(np.isfinite(s) & (s > 0), s, 0.5)
                    else:
                        s = np.full(d, 0.5)
                    scale = 2.38 / np.sqrt(d) * s * (0.6 if t % 2 else 0.15)
                    prop = z[idx] + scale * self._random.normal(size=(len(idx), d))
                    lp_prop = self._eval(prop)
                    log_u = np.log(self._random.uniform(size=len(idx)))
                    with np.errstate(invalid="ignore"):
                        ok = (log_u < (lp_prop - lp[idx])) & np.isfinite(lp_prop)
                    z[idx[ok]] = prop[ok]
                    lp[idx[ok]] = lp_prop[ok]
                    acc[idx[ok]] += 1
            chain[t] = z
        self._chain = chain
        self.acceptance_fraction = acc / max(nsteps, 1)
        return z

    def get_chain(self, flat=False, discard=0, thin=1):
        c = self._chain[discard::thin]
        if flat:
            return c.reshape(-1, self.ndim)
        return c

    def get_autocorr_time(self, quiet=False, discard=0, **kwargs):
        return np.full(self.ndim, np.nan)
