#!/bin/bash
# Offline setup: contract libraries beside the repository's interpreter, then a self-test of
# the stand-in kernels and the entry-point proposal.
set -e
HERE="$(cd "$(dirname "${BASH_SOURCE[0]}")" && pwd)"
cd "$HERE"
if [ ! -d .deps/icontract ]; then
  mkdir -p .deps
  PIP_NO_INDEX=1 /venv/bin/pip install -q --no-index --find-links /opt/veriftools/wheels \
     --target .deps --no-deps icontract asttokens six deal 2>&1 | grep -v -i "warning" || true
fi
export PYTHONHASHSEED=0
export PYTHONPATH="$HERE${PYTHONPATH:+:$PYTHONPATH}"
/venv/bin/python -W ignore -m av.selftest 2> >(grep -v conda >&2)
