#!/bin/bash
# like seedtest.sh but applies the patch with a 3-way merge in a temporary git worktree of /repo HEAD
# (for seeds made against an older HEAD whose context has since changed)
SD="$1"; shift
W=$(mktemp -d /tmp/avseed3-XXXXXX); rmdir "$W"
git -C /repo worktree add -q --detach "$W" HEAD
trap 'git -C /repo worktree remove --force "$W" 2>/dev/null; rm -rf "$W"' EXIT
( cd "$W" && git apply --3way --whitespace=nowarn "$SD/patch.diff" 2>&1 | tail -2 ) 
( cd "$W" && git diff --stat | tail -1; git diff | grep -c "^<<<<<<<" )
cd "$(dirname "$0")/.."
if [ -z "${SKIP_DEMO:-}" ]; then ( cd "$SD" && TORCH_COMPILE_DISABLE=1 OMP_NUM_THREADS=1 PYTHONPATH="$W/src" timeout 900 /venv/bin/python -W ignore demo.py >/dev/null 2>&1; echo "demo on patched: exit $?" ); fi
if [ -n "${SAVE_PATCH:-}" ]; then git -C "$W" diff > "$SAVE_PATCH"; fi
for c in "$@"; do
  ASPIRE_REPO="$W" VERIF_NO_EVIDENCE=1 ./check "$c" --tier "${TIER:-quick}" 2>&1 | grep -E "mech=|^\[$c\] tier" | cut -c1-260 | sort | uniq -c | sort -rn | head -5
done
