#!/venv/bin/python
"""tools/seedtable.py - markdown table of the stored seeded changes (from seeded/*/meta.json)."""
import glob
import json
import os

V = os.path.dirname(os.path.dirname(os.path.abspath(__file__)))
print("| seeded change | property | needs, to manifest | repository tests with the change | detected by (mechanisms) |")
print("|---|---|---|---|---|")
for d in sorted(glob.glob(os.path.join(V, "seeded", "*"))):
    m = json.load(open(os.path.join(d, "meta.json")))
    det = "; ".join(f"{c}: {', '.join(x.split('/', 1)[-1] for x in v['mechanisms'][:3])}" for c, v in m.get("detected_by", {}).items()) or "-"
    miss = ", ".join(m.get("not_detected_by", []))
    t = m.get("tests_patched", "").split(" in ")[0]
    print(f"| `{os.path.basename(d)}` | {m['property']} | {m.get('needs_to_manifest','')} | {t} | {det}{(' (not by: ' + miss + ')') if miss else ''} |")
