#!/bin/bash
# tools/at_commit.sh <commit> <check-id> [check args...]
# Runs a check against the source tree of /repo at <commit> (exported to a scratch dir, removed afterwards).
set -e
C="$1"; shift
D=$(mktemp -d /tmp/avat-XXXXXX)
trap 'rm -rf "$D"' EXIT
git -C /repo archive "$C" src | tar -x -C "$D"
cd "$(dirname "$0")/.."
ASPIRE_REPO="$D" VERIF_NO_EVIDENCE=1 ./check "$@" || true
