#!/venv/bin/python
"""tools/reach.py [--tier quick] [C01 C02 ...]  ->  reach map of the registered workloads.

Runs the named checks (default: all twenty) with line/branch recording switched on in every worker
(VERIF_COVERAGE_DIR), merges the recordings and prints, per library module, the statements of
/repo/src/aspire that NO workload executed.  This is not a verdict of any property; it is the
"what did the monitors actually get to see" audit asked for by the monitoring guidance: a monitor says
nothing about code the workload never drives, so unreached lines are candidates for new workload
dimensions (or are recorded in DESIGN.md as out of reach, with the reason).
Evidence files are not rewritten (VERIF_NO_EVIDENCE=1).  Output: reach/<tier>.json + a text summary.
"""
import json
import os
import shutil
import subprocess
import sys
import tempfile

V = os.path.dirname(os.path.dirname(os.path.abspath(__file__)))
args = sys.argv[1:]
tier = "quick"
if "--tier" in args:
    i = args.index("--tier")
    tier = args[i + 1]
    del args[i : i + 2]
checks = args or [f"C{i:02d}" for i in range(1, 21)]
d = tempfile.mkdtemp(prefix="avreach-")
try:
    for c in checks:
        r = subprocess.run([os.path.join(V, "check"), c, "--tier", tier], cwd=V, env=dict(os.environ, VERIF_COVERAGE_DIR=d, VERIF_NO_EVIDENCE="1"), capture_output=True, text=True)
        print(c, "exit", r.returncode, file=sys.stderr)
    import coverage

    per_check = {}
    repo = os.path.realpath(os.environ.get("ASPIRE_REPO", "/repo"))
    allcov = coverage.Coverage(data_file=os.path.join(d, "all"), branch=True)
    allcov.combine([os.path.join(d, f) for f in os.listdir(d) if f.startswith("cov.")], keep=True)
    allcov.save()
    data = allcov.get_data()
    out = {"tier": tier, "checks": checks, "modules": {}}
    tot_s = tot_m = 0
    for root, _dirs, files in os.walk(os.path.join(repo, "src", "aspire")):
        for fn in sorted(files):
            if not fn.endswith(".py"):
                continue
            path = os.path.join(root, fn)
            try:
                _f, stmts, _excl, missing, _fmt = allcov.analysis2(path)
            except Exception as exc:  # noqa: BLE001
                out["modules"][os.path.relpath(path, repo)] = {"error": repr(exc)}
                continue
            rel = os.path.relpath(path, repo)
            out["modules"][rel] = {"statements": len(stmts), "never_executed": missing}
            tot_s += len(stmts)
            tot_m += len(missing)
    out["statements"] = tot_s
    out["never_executed"] = tot_m
    os.makedirs(os.path.join(V, "reach"), exist_ok=True)
    with open(os.path.join(V, "reach", f"{tier}.json"), "w") as f:
        json.dump(out, f, indent=1)
    for rel, m in out["modules"].items():
        if "error" in m:
            print(rel, m["error"])
            continue
        print(f"{rel}: {m['statements'] - len(m['never_executed'])}/{m['statements']} statements executed; never: {m['never_executed']}")
    print(f"TOTAL {tot_s - tot_m}/{tot_s}")
finally:
    shutil.rmtree(d, ignore_errors=True)
