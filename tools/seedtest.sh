#!/bin/bash
# tools/seedtest.sh <dir-with-patch.diff> <check ids...>   e.g. tools/seedtest.sh /tmp/seed-out/C03 C03 C04
# Applies patch.diff to a scratch export of /repo HEAD, runs the demo against both trees and the named checks
# against the patched tree (through ASPIRE_REPO); removes the scratch copy.
set -u
SD="$1"; shift
D=$(mktemp -d /tmp/avseed-XXXXXX)
trap 'rm -rf "$D"' EXIT
git -C /repo archive HEAD | tar -x -C "$D"
( cd "$D" && git init -q . >/dev/null 2>&1; git apply --whitespace=nowarn "$SD/patch.diff" ) || { echo "PATCH DOES NOT APPLY"; exit 3; }
cd "$(dirname "$0")/.."
if [ -f "$SD/demo.py" ] && [ -z "${SKIP_DEMO:-}" ]; then
  ( cd "$SD" && TORCH_COMPILE_DISABLE=1 OMP_NUM_THREADS=1 PYTHONPATH=/repo/src timeout 900 /venv/bin/python -W ignore demo.py >/dev/null 2>&1; echo "demo on /repo: exit $?" )
  ( cd "$SD" && TORCH_COMPILE_DISABLE=1 OMP_NUM_THREADS=1 PYTHONPATH="$D/src" timeout 900 /venv/bin/python -W ignore demo.py >/dev/null 2>&1; echo "demo on patched: exit $?" )
fi
if [ -n "${RUN_TESTS:-}" ]; then
  ( cd "$D" && PYTHONPATH="$D/src" /venv/bin/python -m pytest -q -p no:cacheprovider --no-cov -n 8 --timeout=900 $RUN_TESTS 2>&1 | tail -1 )
fi
for c in "$@"; do
  ASPIRE_REPO="$D" VERIF_NO_EVIDENCE=1 ./check "$c" --tier "${TIER:-quick}" 2>&1 | grep -E "mech=|^\[$c\] tier" | cut -c1-260 | sort | uniq -c | sort -rn | head -6
done
