#!/venv/bin/python
"""tools/keep_seed.py <seed-dir> <name> <property> <check,check,...> ["needs" text]
Confirms a sub-agent's change in a scratch export of /repo HEAD (patch applies, demo passes on /repo and fails on the
patched tree, the repository's tests pass as on the unchanged tree), runs the named checks against it, and stores
patch.diff + demo + notes + meta.json under /verif/seeded/<name>/."""
import json
import os
import shutil
import subprocess
import sys
import tempfile

sd, name, prop, checks = sys.argv[1:5]
needs = sys.argv[5] if len(sys.argv) > 5 else ""
checks = checks.split(",")
VERIF = os.path.dirname(os.path.dirname(os.path.abspath(__file__)))
d = tempfile.mkdtemp(prefix="avkeep-")
meta = {"property": prop, "name": name, "needs_to_manifest": needs, "ran": []}
try:
    subprocess.run(f"git -C /repo archive HEAD | tar -x -C {d}", shell=True, check=True)
    r = subprocess.run(["git", "apply", "--whitespace=nowarn", os.path.join(sd, "patch.diff")], cwd=d, capture_output=True, text=True)
    subprocess.run(["git", "init", "-q", "."], cwd=d)
    if r.returncode != 0:
        r = subprocess.run(["patch", "-p1", "-i", os.path.join(sd, "patch.diff")], cwd=d, capture_output=True, text=True)
    meta["patch_applies_to_repo_head"] = r.returncode == 0
    if r.returncode != 0:
        print("PATCH DOES NOT APPLY", r.stderr[-300:])
        sys.exit(3)
    env = dict(os.environ, TORCH_COMPILE_DISABLE="1", OMP_NUM_THREADS="1")
    demo = os.path.join(sd, "demo.py")
    for label, pp in (("repo", "/repo/src"), ("patched", os.path.join(d, "src"))):
        rr = subprocess.run(["/venv/bin/python", "-W", "ignore", demo], cwd=sd, env=dict(env, PYTHONPATH=pp), capture_output=True, text=True, timeout=1800)
        meta[f"demo_exit_{label}"] = rr.returncode
        meta["ran"].append(f"PYTHONPATH={pp if label=='repo' else '<patched>/src'} python demo.py -> exit {rr.returncode}")
    # repository tests on the patched tree vs unchanged tree (same subset)
    tests = "tests/test_samples.py tests/test_utils.py tests/test_transforms.py tests/test_history.py tests/test_plot.py tests/test_flows tests/integration_tests"
    res = {}
    prev_meta = os.path.join(VERIF, "seeded", name, "meta.json")
    if os.environ.get("SKIP_TESTS") and os.path.exists(prev_meta):
        # re-validation against newer checks: the repository's tests were run on this very patch when it was first kept
        res["patched"] = json.load(open(prev_meta)).get("tests_patched", "")
    for label, root in (("patched", d),) if "patched" not in res else ():
        rr = subprocess.run(f"cd {root} && PYTHONPATH={root}/src /venv/bin/python -m pytest {tests} -q -p no:cacheprovider --no-cov -n 4 --timeout=1800 2>&1 | tail -1", shell=True, capture_output=True, text=True, env=env)
        res[label] = rr.stdout.strip()
    meta["tests_patched"] = res["patched"]
    meta["tests_unchanged_expected"] = "205 failed, 279 passed, 64 xfailed"
    meta["ran"].append(f"pytest {tests} -n 10 on patched tree -> {res['patched']}")
    det = {}
    for c in checks:
        rr = subprocess.run([os.path.join(VERIF, "check"), c, "--tier", "quick"], cwd=VERIF, env=dict(os.environ, ASPIRE_REPO=d, VERIF_NO_EVIDENCE="1"), capture_output=True, text=True)
        mechs = sorted({ln.split("mech=")[1].split(" ")[0] for ln in rr.stdout.splitlines() if "mech=" in ln})
        det[c] = {"exit": rr.returncode, "mechanisms": mechs[:6]}
        meta["ran"].append(f"ASPIRE_REPO=<patched> ./check {c} --tier quick -> exit {rr.returncode} {mechs[:3]}")
    meta["detected_by"] = {c: v for c, v in det.items() if v["exit"] == 1}
    meta["not_detected_by"] = [c for c, v in det.items() if v["exit"] != 1]
    if os.environ.get("SKIP_TESTS") and os.path.exists(prev_meta):
        # re-validation of some checks only: keep what the earlier validation recorded for the others
        old = json.load(open(prev_meta))
        for c, v in old.get("detected_by", {}).items():
            if c not in det:
                meta["detected_by"][c] = v
        meta["not_detected_by"] += [c for c in old.get("not_detected_by", []) if c not in det and c not in meta["not_detected_by"]]
        meta["ran"] = old.get("ran", []) + ["re-validated against the strengthened checks:"] + meta["ran"]
    out = os.path.join(VERIF, "seeded", name)
    os.makedirs(out, exist_ok=True)
    for f in ("patch.diff", "demo.py", "notes.md"):
        if os.path.exists(os.path.join(sd, f)):
            shutil.copy(os.path.join(sd, f), os.path.join(out, f))
    with open(os.path.join(out, "meta.json"), "w") as f:
        json.dump(meta, f, indent=1)
    print(json.dumps({k: meta[k] for k in ("demo_exit_repo", "demo_exit_patched", "tests_patched", "detected_by", "not_detected_by")}, indent=1))
finally:
    shutil.rmtree(d, ignore_errors=True)
