"""Break-it list: realistic edits that violate a property while compiling (own, not the sub-agents')."""
MUTATIONS = [
    # ---- C02
    dict(name="c02-logq-sign", file="samples.py", checks=["C02"],
         old="self.log_w = self.log_likelihood + self.log_prior - self.log_q", new="self.log_w = self.log_likelihood + self.log_prior + self.log_q"),
    dict(name="c02-missing-logN", file="samples.py", checks=["C02"],
         old="self.log_evidence = asarray(logsumexp(self.log_w), self.xp) - math.log(\n            len(self.x)\n        )", new="self.log_evidence = asarray(logsumexp(self.log_w), self.xp)"),
    dict(name="c02-ess-unsquared", file="samples.py", checks=["C02"],
         old="asarray(logsumexp(log_w) * 2 - logsumexp(log_w * 2), self.xp)\n        )\n\n    @property\n    def scaled_weights", new="asarray(logsumexp(log_w) * 2 - logsumexp(log_w) * 2, self.xp)\n        )\n\n    @property\n    def scaled_weights"),
    dict(name="c02-rejection-flip", file="samples.py", checks=["C02"],
         old="accept = log_w > log_u", new="accept = log_w < log_u"),
    dict(name="c02-scaled-unshifted", file="samples.py", checks=["C02"],
         old="return self.xp.exp(self.log_w - self.xp.max(self.log_w))", new="return self.xp.exp(self.log_w - self.xp.mean(self.log_w))"),
    dict(name="c02-logsumexp-noshift", file="utils.py", checks=["C02"],
         old="    c = x.max()\n    return c + xp.log(xp.sum(xp.exp(x - c), axis=axis))", new="    c = 0.0\n    return c + xp.log(xp.sum(xp.exp(x - c), axis=axis))"),
    # ---- C04
    dict(name="c04-logit-jac-sign", file="utils.py", checks=["C04"],
         old="log_j = (-xp.log(x) - xp.log1p(-x)).sum(-1)", new="log_j = (-xp.log(x) + xp.log1p(-x)).sum(-1)"),
    dict(name="c04-unit-scale-dropped", file="transforms.py", checks=["C04"],
         old="        log_j = self._scale_log_abs_det_jacobian * self.xp.ones(\n            y.shape[0], device=get_device(y)\n        )\n        return y, log_j",
         new="        log_j = 0.0 * self._scale_log_abs_det_jacobian * self.xp.ones(\n            y.shape[0], device=get_device(y)\n        )\n        return y, log_j"),
    dict(name="c04-periodic-wrong-interval", file="transforms.py", checks=["C04"],
         old="        y = self.lower + (x - self.lower) % self._width\n        return y, self.xp.zeros(y.shape[0], device=get_device(y))",
         new="        y = (x - self.lower) % self._width\n        return y, self.xp.zeros(y.shape[0], device=get_device(y))"),
    dict(name="c04-composite-inverse-drops-affine-jac", file="transforms.py", checks=["C04"],
         old="            x, log_j_affine = self._affine_transform.inverse(x)\n            log_abs_det_jacobian += log_j_affine", new="            x, log_j_affine = self._affine_transform.inverse(x)"),
    dict(name="c04-probit-jac-half", file="transforms.py", checks=["C04"],
         old="log_abs_det_jacobian = 0.5 * (math.log(2 * math.pi) + y**2).sum(-1)", new="log_abs_det_jacobian = 0.5 * (math.log(math.pi) + y**2).sum(-1)"),
    dict(name="c04-affine-sign", file="transforms.py", checks=["C04"],
         old="        return x, -self.log_abs_det_jacobian * self.xp.ones(\n            y.shape[0], device=get_device(y)\n        )\n\n    def config_dict(self):\n        return super().config_dict()",
         new="        return x, self.log_abs_det_jacobian * self.xp.ones(\n            y.shape[0], device=get_device(y)\n        )\n\n    def config_dict(self):\n        return super().config_dict()"),
    dict(name="c04-composite-fit-order", file="transforms.py", checks=["C04"],
         old="            x = self._affine_transform.fit(x)\n        return x", new="            self._affine_transform.fit(x)\n        return x"),
]

MUTATIONS += [
    dict(name="c16-getitem-logq-unindexed", file="samples.py", checks=["C16"],
         old="            log_q=self.log_q[idx] if self.log_q is not None else None,\n            parameters=self.parameters,\n            dtype=self.dtype,\n        )\n\n    def __setitem__",
         new="            log_q=self.log_q[idx] if self.log_q is not None and not isinstance(idx, slice) else self.log_q[: len(self.x[idx])] if self.log_q is not None else None,\n            parameters=self.parameters,\n            dtype=self.dtype,\n        )\n\n    def __setitem__"),
    dict(name="c16-evidence-recomputed-on-slice", file="samples.py", checks=["C16"],
         old="        sliced.log_evidence = self.log_evidence\n        sliced.log_evidence_error = self.log_evidence_error\n\n        if self.log_w is not None:",
         new="        sliced.log_evidence_error = self.log_evidence_error\n\n        if self.log_w is not None:"),
    dict(name="c16-concat-prior-order", file="samples.py", checks=["C16"],
         old="log_prior=xp.concatenate([s.log_prior for s in samples], axis=0)", new="log_prior=xp.concatenate([s.log_prior for s in samples[::-1]], axis=0)"),
    dict(name="c16-setstate-drops-dtype", file="samples.py", checks=["C16"],
         old="        state[\"device\"] = device\n        self.__dict__.update(state)", new="        state[\"device\"] = device\n        state[\"log_prior\"] = None if state.get(\"log_prior\") is None else state[\"log_prior\"] * 1.0000001\n        self.__dict__.update(state)"),
    dict(name="c16-weights-not-resliced", file="samples.py", checks=["C16"],
         old="            sliced.log_w = self.array_to_namespace(self.log_w[idx])", new="            sliced.log_w = self.array_to_namespace(self.log_w)[: len(sliced.x)]"),
]

MUTATIONS += [
    # ---- C06
    dict(name="c06-snap-removed", file="samplers/smc/base.py", checks=["C06"],
         old="            if beta >= 1.0 - 1e-3 * beta_step:\n                beta = 1.0", new="            if beta >= 1.0:\n                beta = 1.0"),
    dict(name="c06-clamp-removed", file="samplers/smc/base.py", checks=["C06"],
         old="            beta = max(beta_star, beta_prev + min_step)\n            beta = min(beta, 1.0)", new="            beta = max(beta_star, beta_prev + min_step)"),
    dict(name="c06-exit-offbyone", file="samplers/smc/base.py", checks=["C06"],
         old="max_n_steps is not None and iterations >= max_n_steps", new="max_n_steps is not None and iterations > max_n_steps"),
    dict(name="c06-progress-guard-removed", file="samplers/smc/base.py", checks=["C06", "C07"],
         old="            if beta_star <= beta_prev:\n", new="            if False and beta_star <= beta_prev:\n"),
    dict(name="c06-zerodiv-guard-removed", file="samplers/smc/base.py", checks=["C06"],
         old="            if self.adaptive_min_step and beta_star < 1.0:", new="            if self.adaptive_min_step:"),
    dict(name="c06-minstep-ignored", file="samplers/smc/base.py", checks=["C06"],
         old="            beta = max(beta_star, beta_prev + min_step)", new="            beta = max(beta_star, beta_prev + 0.5 * min_step)"),
    # ---- C07
    dict(name="c07-comparison-flipped", file="samplers/smc/base.py", checks=["C07"],
         old="                if eff >= target_eff:\n                    beta_min = beta_try\n                else:\n                    beta_max = beta_try",
         new="                if eff < target_eff:\n                    beta_min = beta_try\n                else:\n                    beta_max = beta_try"),
    dict(name="c07-target-from-wrong-attr", file="samplers/smc/base.py", checks=["C07"],
         old="            target_eff = self.current_target_efficiency(beta_prev)", new="            target_eff = 0.5 * self.current_target_efficiency(beta_prev)"),
    dict(name="c07-min-instead-of-max-floor", file="samplers/smc/base.py", checks=["C07"],
         old="            beta = max(beta_star, beta_prev + min_step)", new="            beta = min(beta_star, beta_prev + min_step) if min_step > 0 else beta_star"),
    dict(name="c07-ess-wrong-temperature", file="samplers/smc/base.py", checks=["C07"],
         old="                eff = effective_sample_size(\n                    samples.log_weights(beta_try)\n                ) / len(samples)",
         new="                eff = effective_sample_size(\n                    samples.log_weights(0.5 * (beta_try + beta_prev))\n                ) / len(samples)"),
    dict(name="c07-full-step-shortcut-wrong", file="samplers/smc/base.py", checks=["C07"],
         old="            if eff_beta_max >= self.current_target_efficiency(beta_prev):\n                beta_min = 1.0", new="            if eff_beta_max >= 0.8 * self.current_target_efficiency(beta_prev):\n                beta_min = 1.0"),
    dict(name="c07-ramp-uses-constant", file="samplers/smc/base.py", checks=["C07"],
         old="            ) * (beta**self.target_efficiency_rate)", new="            ) * (0.0 * beta**self.target_efficiency_rate)"),
]

MUTATIONS += [
    # ---- C09
    dict(name="c09-logq-different-index", file="samples.py", checks=["C09"],
         old="            log_q=self.log_q[idx],\n            beta=beta,", new="            log_q=self.log_q[np.sort(idx)],\n            beta=beta,"),
    dict(name="c09-weights-wrong-temperature", file="samples.py", checks=["C09"],
         old="        log_w = self.log_weights(beta)\n        w = to_numpy", new="        log_w = self.log_weights(1.0)\n        w = to_numpy"),
    dict(name="c09-beta-not-stamped", file="samples.py", checks=["C09"],
         old="            log_q=self.log_q[idx],\n            beta=beta,", new="            log_q=self.log_q[idx],\n            beta=self.beta,"),
    dict(name="c09-prior-not-resampled", file="samples.py", checks=["C09"],
         old="            log_prior=self.log_prior[idx],\n            log_q=self.log_q[idx],\n            beta=beta,", new="            log_prior=self.log_prior[: len(idx)] if len(idx) <= len(self.log_prior) else self.log_prior[idx],\n            log_q=self.log_q[idx],\n            beta=beta,"),
    dict(name="c09-size-ignored-when-smaller", file="samples.py", checks=["C09"],
         old="        if n_samples is None:\n            n_samples = len(self.x)\n        log_w = self.log_weights(beta)", new="        if n_samples is None or n_samples < len(self.x):\n            n_samples = len(self.x)\n        log_w = self.log_weights(beta)"),
    dict(name="c09-bypass-rng-on-enlarge", file="samplers/smc/base.py", checks=["C09"],
         old="                1.0, n_samples=n_final_samples, rng=self.rng\n", new="                1.0, n_samples=n_final_samples\n"),
    dict(name="c09-sqrt-weights", file="samples.py", checks=["C09"],
         old="        w = w.astype(np.float64)\n        w = w / w.sum()", new="        w = np.sqrt(w.astype(np.float64))\n        w = w / w.sum()"),
    dict(name="c09-unnormalized-sign", file="samples.py", checks=["C09", "C08"],
         old="        return (self.beta - beta) * self.log_q + (beta - self.beta) * (", new="        return (beta - self.beta) * self.log_q + (beta - self.beta) * ("),
]

MUTATIONS += [
    # ---- C08
    dict(name="c08-ratio-after-resample", file="samplers/smc/base.py", checks=["C08"],
         old="                samples = samples.resample(beta, rng=self.rng)\n\n                samples = self.mutate(samples, beta)",
         new="                samples = samples.resample(beta, rng=self.rng)\n                self.history.log_norm_ratio[-1] = samples.log_evidence_ratio(beta)\n\n                samples = self.mutate(samples, beta)"),
    dict(name="c08-missing-logN", file="samples.py", checks=["C08"],
         old="        log_w = self.unnormalized_log_weights(beta)\n        return logsumexp(log_w) - math.log(len(self.x))\n\n    def log_evidence_ratio_variance",
         new="        log_w = self.unnormalized_log_weights(beta)\n        return logsumexp(log_w) - math.log(len(self.x) + 1)\n\n    def log_evidence_ratio_variance"),
    dict(name="c08-first-step-skipped-in-sum", file="samplers/smc/base.py", checks=["C08"],
         old="            asarray(self.history.log_norm_ratio, self.xp)\n        )", new="            asarray(self.history.log_norm_ratio[1:] or [0.0], self.xp)\n        )"),
    dict(name="c08-variance-not-summed", file="samplers/smc/base.py", checks=["C08"],
         old="            samples.xp.sum(asarray(self.history.log_norm_ratio_var, self.xp))", new="            samples.xp.max(asarray(self.history.log_norm_ratio_var, self.xp))"),
    dict(name="c08-enlargement-double-counts", file="samplers/smc/base.py", checks=["C08"],
         old="            logger.info(f\"Generating {n_final_samples} final samples\")", new="            self.history.log_norm_ratio.append(samples.log_evidence_ratio(1.0) + 1e-3)\n            self.history.log_norm_ratio_var.append(0.0)"),
    dict(name="c08-checkpoint-consumes-randomness", file="samplers/smc/base.py", checks=["C08"],
         old="            state = self.build_checkpoint_state(samples, iterations, beta)", new="            self.rng.random()\n            state = self.build_checkpoint_state(samples, iterations, beta)"),
    dict(name="c08-wrong-temperature-pair", file="samplers/smc/base.py", checks=["C08"],
         old="                log_evidence_ratio = samples.log_evidence_ratio(beta)", new="                log_evidence_ratio = samples.log_evidence_ratio(min(1.0, beta * 1.01))"),
]

MUTATIONS += [
    # ---- C18
    dict(name="c18-history-before-mutate", file="samplers/smc/base.py", checks=["C18"],
         old="                samples = samples.resample(beta, rng=self.rng)\n\n                samples = self.mutate(samples, beta)\n                if store_sample_history:\n                    self.history.sample_history.append(samples)",
         new="                samples = samples.resample(beta, rng=self.rng)\n                if store_sample_history:\n                    self.history.sample_history.append(samples)\n\n                samples = self.mutate(samples, beta)"),
    dict(name="c18-resume-dup-guard-removed", file="samplers/smc/base.py", checks=["C18"],
         old="        if store_sample_history and not (\n            resumed and self.history.sample_history\n        ):", new="        if store_sample_history:"),
    dict(name="c18-ess-target-moved", file="samplers/smc/base.py", checks=["C18"],
         old="                    effective_sample_size(samples.log_weights(1.0))\n                )", new="                    effective_sample_size(samples.log_weights(beta))\n                )"),
    dict(name="c18-ess-appended-twice-on-lowess", file="samplers/smc/base.py", checks=["C18"],
         old="                if eff < 0.1:\n                    logger.warning(", new="                if eff < 0.6:\n                    self.history.ess.append(ess)\n                if eff < 0.1:\n                    logger.warning("),
    dict(name="c18-beta-appended-before-clamp", file="samplers/smc/base.py", checks=["C18", "C06"],
         old="                self.history.beta.append(beta)", new="                self.history.beta.append(beta if beta < 1.0 else 1.0 - 1e-12)"),
    dict(name="c18-history-not-deepcopied-in-checkpoint", file="samplers/smc/base.py", checks=["C18", "C11"],
         old="        history_copy = copy.deepcopy(self.history)", new="        history_copy = self.history"),
]

MUTATIONS += [
    # ---- C05
    dict(name="c05-jacobian-dropped-smc", file="samplers/smc/base.py", checks=["C05"],
         old="        ).flatten() + samples.array_to_namespace(log_abs_det_jacobian)\n\n        log_prob = update_at_indices(", new="        ).flatten() + 0.0 * samples.array_to_namespace(log_abs_det_jacobian)\n\n        log_prob = update_at_indices("),
    dict(name="c05-jacobian-negated-mcmc", file="samplers/mcmc.py", checks=["C05"],
         old="            + samples.array_to_namespace(log_abs_det_jacobian)\n        )\n        return to_numpy(log_prob).flatten()", new="            - samples.array_to_namespace(log_abs_det_jacobian)\n        )\n        return to_numpy(log_prob).flatten()"),
    dict(name="c05-beta-swapped", file="samples.py", checks=["C05"],
         old="        return (1 - beta) * self.log_q + beta * log_p_T", new="        return beta * self.log_q + (1 - beta) * log_p_T"),
    dict(name="c05-prior-dropped", file="samples.py", checks=["C05"],
         old="        log_p_T = self.log_likelihood + self.log_prior\n        return (1 - beta)", new="        log_p_T = self.log_likelihood\n        return (1 - beta)"),
    dict(name="c05-nan-not-mapped", file="samplers/smc/base.py", checks=["C05"],
         old="        log_prob = update_at_indices(\n            log_prob, self.xp.isnan(log_prob), -self.xp.inf\n        )\n        return log_prob", new="        return log_prob"),
    dict(name="c05-forward-jacobian-used", file="samplers/smc/base.py", checks=["C05"],
         old="        x, log_abs_det_jacobian = self.preconditioning_transform.inverse(z)\n        samples = SMCSamples(x, xp=self.xp, beta=beta, dtype=self.dtype)",
         new="        x, log_abs_det_jacobian = self.preconditioning_transform.inverse(z)\n        log_abs_det_jacobian = self.preconditioning_transform.forward(x)[1]\n        samples = SMCSamples(x, xp=self.xp, beta=beta, dtype=self.dtype)"),
    dict(name="c05-blackjax-nan-where-removed", file="samplers/smc/blackjax.py", checks=["C05"],
         old="        ).flatten() + samples.array_to_namespace(log_abs_det_jacobian)\n\n        # Handle NaN values", new="        ).flatten() + 0.5 * samples.array_to_namespace(log_abs_det_jacobian)\n\n        # Handle NaN values"),
    dict(name="c05-copy-array-aliases", file="utils.py", checks=["C05"],
         old="            return xp.clone(xp.as_tensor(x))", new="            return xp.as_tensor(x)"),
    dict(name="c05-emcee-mutate-wrong-beta", file="samplers/smc/emcee.py", checks=["C05"],
         old="            args=(beta,),", new="            args=(min(1.0, beta + 0.05),),"),
    dict(name="c05-minipcn-lambda-drops-beta", file="samplers/smc/minipcn.py", checks=["C05"],
         old="        log_prob_fn = partial(self.log_prob, beta=beta)", new="        log_prob_fn = partial(self.log_prob, beta=1.0)"),
]

MUTATIONS += [
    # ---- C10
    dict(name="c10-logq-not-masked", file="samplers/mcmc.py", checks=["C10"],
         old="                if samples is None:\n                    samples = new_samples[valid]",
         new="                if samples is None:\n                    samples = new_samples[valid]\n                    samples.log_q = new_samples.log_q[: len(samples.x)]"),
    dict(name="c10-stale-likelihood-after-mutation", file="samplers/smc/minipcn.py", checks=["C10"],
         old="        samples.log_likelihood = samples.array_to_namespace(\n            self.log_likelihood(samples)\n        )\n        if samples.xp.isnan(samples.log_q).any():",
         new="        samples.log_likelihood = samples.array_to_namespace(\n            self.log_likelihood(samples)\n        )\n        if len(particles.x) == len(samples.x):\n            samples.log_likelihood = particles.log_likelihood\n        if samples.xp.isnan(samples.log_q).any():"),
    dict(name="c10-logq-not-reevaluated-emcee", file="samplers/smc/emcee.py", checks=["C10"],
         old="        samples.log_q = samples.array_to_namespace(\n            self.prior_flow.log_prob(samples.x)\n        )", new="        samples.log_q = samples.array_to_namespace(\n            self.prior_flow.log_prob(particles.x)\n        )"),
    dict(name="c10-initial-oversized", file="samplers/mcmc.py", checks=["C10"],
         old="        if n_samples_drawn > n_samples:\n            samples = samples[:n_samples]", new="        if n_samples_drawn > 2 * n_samples:\n            samples = samples[:n_samples]"),
    dict(name="c10-concat-misaligned", file="samples.py", checks=["C10", "C16"],
         old="            log_q=xp.concatenate([s.log_q for s in samples], axis=0)", new="            log_q=xp.concatenate([s.log_q for s in samples[::-1]], axis=0)"),
    dict(name="c10-valid-mask-notfinite-vs-notnan", file="samplers/mcmc.py", checks=["C10"],
         old="            valid = self.xp.isfinite(new_samples.log_prior)", new="            valid = ~self.xp.isnan(new_samples.log_prior)"),
    # ---- C17
    dict(name="c17-likelihood-before-prior-importance", file="samplers/importance.py", checks=["C17"],
         old="        samples.log_prior = samples.array_to_namespace(self.log_prior(samples))\n        samples.log_likelihood = samples.array_to_namespace(\n            self.log_likelihood(samples)\n        )",
         new="        samples.log_likelihood = samples.array_to_namespace(\n            self.log_likelihood(samples)\n        )\n        samples.log_prior = samples.array_to_namespace(self.log_prior(samples))"),
    dict(name="c17-count-bypassed-in-mutate", file="samplers/smc/minipcn.py", checks=["C17"],
         old="        samples.log_likelihood = samples.array_to_namespace(\n            self.log_likelihood(samples)\n        )\n        if samples.xp.isnan(samples.log_q).any():",
         new="        samples.log_likelihood = samples.array_to_namespace(\n            self._log_likelihood(samples)\n        )\n        if samples.xp.isnan(samples.log_q).any():"),
    dict(name="c17-prior-from-other-batch-mcmc", file="samplers/mcmc.py", checks=["C17"],
         old="        samples = Samples(x, xp=self.xp, dtype=self.dtype)\n        samples.log_prior = self.log_prior(samples)\n        samples.log_likelihood = self.log_likelihood(samples)",
         new="        samples = Samples(x, xp=self.xp, dtype=self.dtype)\n        samples.log_prior = self.log_prior(samples)\n        samples.log_prior = samples.log_prior * 0 + samples.log_prior[0]\n        samples.log_likelihood = self.log_likelihood(samples)"),
    dict(name="c17-count-twice-initial", file="samplers/mcmc.py", checks=["C17"],
         old="        samples.log_likelihood = samples.array_to_namespace(\n            self.log_likelihood(samples)\n        )\n        return samples",
         new="        samples.log_likelihood = samples.array_to_namespace(\n            self.log_likelihood(samples)\n        )\n        self.n_likelihood_evaluations += len(samples)\n        return samples"),
    dict(name="c17-blackjax-prior-skipped", file="samplers/smc/blackjax.py", checks=["C17"],
         old="        samples.log_prior = samples.array_to_namespace(self.log_prior(samples))\n        samples.log_likelihood = samples.array_to_namespace(\n            self.log_likelihood(samples)\n        )\n\n        # Compute target log probability",
         new="        samples.log_likelihood = samples.array_to_namespace(\n            self.log_likelihood(samples)\n        )\n        samples.log_prior = samples.array_to_namespace(self.log_prior(samples))\n\n        # Compute target log probability"),
]

MUTATIONS += [
    # ---- C11
    dict(name="c11-rng-state-not-restored", file="samplers/smc/base.py", checks=["C11"],
         old="        if rng_state is not None and hasattr(self.rng, \"bit_generator\"):\n            self.rng.bit_generator.state = rng_state", new="        if rng_state is not None and hasattr(self.rng, \"bit_generator\") and False:\n            self.rng.bit_generator.state = rng_state"),
    dict(name="c11-iteration-offbyone-on-restore", file="samplers/smc/base.py", checks=["C11"],
         old="        iteration = state.get(\"iteration\", 0)\n        self.history", new="        iteration = state.get(\"iteration\", 0) + 1\n        self.history"),
    dict(name="c11-minstep-not-carried", file="samplers/smc/base.py", checks=["C11"],
         old="                if resumed and self._restored_min_step is not None:", new="                if False and resumed and self._restored_min_step is not None:"),
    dict(name="c11-beta-from-history-not-meta", file="samplers/smc/base.py", checks=["C11"],
         old="            beta = meta.get(\"beta\", None)", new="            beta = meta.get(\"beta\", None)\n            beta = None if beta is None else float(beta) * (1 - 1e-9)"),
    dict(name="c11-resume-file-priming-skipped", file="aspire.py", checks=["C11"],
         old="        if \"resume_from\" not in kwargs and hasattr(\n            self, \"_resume_from_default\"\n        ):", new="        if \"resume_from\" in kwargs and hasattr(\n            self, \"_resume_from_default\"\n        ):"),
    dict(name="c11-blackjax-key-not-restored", file="samplers/smc/blackjax.py", checks=["C11"],
         old="        jax_key = state.get(\"jax_key\")", new="        jax_key = None"),
    dict(name="c11-sampler-kwargs-popped-state", file="samplers/smc/base.py", checks=["C11"],
         old="        n_final_steps = self.sampler_kwargs.pop(\"n_final_steps\", None)", new="        n_final_steps = self.sampler_kwargs.pop(\"n_final_steps\", None)\n        if resumed:\n            self.rng.random()"),
]

MUTATIONS += [
    # ---- C12
    dict(name="c12-no-resize-on-shrink", file="utils.py", checks=["C12"],
         old="    elif bdata.size != target[dsetname].shape[0]:\n        target[dsetname].resize((bdata.size,))\n    target[dsetname][:] = bdata",
         new="    elif bdata.size > target[dsetname].shape[0]:\n        target[dsetname].resize((bdata.size,))\n    target[dsetname][: bdata.size] = bdata"),
    dict(name="c12-cadence-offbyone", file="samplers/smc/base.py", checks=["C12"],
         old="                and iterations % checkpoint_every == 0", new="                and (iterations - 1) % checkpoint_every == 0"),
    dict(name="c12-final-checkpoint-dropped", file="samplers/smc/base.py", checks=["C12"],
         old="        maybe_checkpoint(force=True)\n", new="        maybe_checkpoint(force=False)\n"),
    dict(name="c12-flow-written-after-sampling", file="aspire.py", checks=["C12"],
         old="                if self.flow is not None and not saved_flow:\n                    # The file must hold the flow this run samples from", new="                if self.flow is not None and not saved_flow and False:\n                    # The file must hold the flow this run samples from"),
    dict(name="c12-config-written-after-sampling", file="aspire.py", checks=["C12"],
         old="            with AspireFile(checkpoint_path, \"a\") as h5_file:\n                if checkpoint_save_config:\n                    if \"aspire_config\" in h5_file:", new="            with AspireFile(checkpoint_path, \"a\") as h5_file:\n                if checkpoint_save_config and False:\n                    if \"aspire_config\" in h5_file:"),
    dict(name="c12-callback-skips-file-when-small", file="samplers/base.py", checks=["C12"],
         old="        def _callback(state: dict) -> None:\n            with AspireFile(file_path, \"a\") as h5_file:", new="        def _callback(state: dict) -> None:\n            if state.get(\"iteration\", 0) == 2:\n                self.default_checkpoint_callback(state)\n                return\n            with AspireFile(file_path, \"a\") as h5_file:"),
]

MUTATIONS += [
    # ---- C14
    dict(name="c14-flow-only-if-missing", file="aspire.py", checks=["C14"],
         old="                    if \"flow\" in h5_file:\n                        del h5_file[\"flow\"]\n                    self.save_flow(h5_file)\n                    saved_flow = True",
         new="                    if \"flow\" not in h5_file:\n                        self.save_flow(h5_file)\n                    saved_flow = True"),
    dict(name="c14-stale-checkpoint-kept", file="aspire.py", checks=["C14"],
         old="                if kwargs.get(\"resume_from\") is None and \"checkpoint\" in h5_file:", new="                if False and \"checkpoint\" in h5_file:"),
    dict(name="c14-overwrite-keeps-checkpoint", file="aspire.py", checks=["C14"],
         old="                        if \"checkpoint\" in h5_file:\n                            del h5_file[\"checkpoint\"]\n                    elif defaults", new="                        if False:\n                            del h5_file[\"checkpoint\"]\n                    elif defaults"),
    # (removed: c14-saved-flow-flag-not-reset - since 2ac6db2 the stored flow is also tied to the fit counter, the flag reset is
    #  a second guard and dropping it alone changes no behaviour; the failing-file-update sequences of C14 cover the counter)
    dict(name="c14-resume-priming-survives-refit", file="aspire.py", checks=["C14"],
         old="        for name in (\"_resume_from_default\", \"_resume_sampler_type\"):", new="        for name in ():"),
    # (removed: c14-sampler-type-lost-after-resume - since caa7783 fit() takes the sampler name from the file it rewrites, which
    #  makes the name remembered at resume time redundant: an equivalent mutant now)
    dict(name="c14-config-not-rewritten", file="aspire.py", checks=["C14"],
         old="                if checkpoint_save_config:\n                    if \"aspire_config\" in h5_file:\n                        del h5_file[\"aspire_config\"]\n                    self.save_config(\n                        h5_file,\n                        include_sampler_config=True,\n                        include_sample_calls=False,\n                    )\n                    saved_config = True",
         new="                if checkpoint_save_config and \"aspire_config\" not in h5_file:\n                    self.save_config(\n                        h5_file,\n                        include_sampler_config=True,\n                        include_sample_calls=False,\n                    )\n                    saved_config = True"),
    dict(name="c14-defaults-leak-after-context", file="aspire.py", checks=["C19"],
         old="            if prev is None:\n                if hasattr(self, \"_checkpoint_defaults\"):\n                    delattr(self, \"_checkpoint_defaults\")", new="            if prev is None:\n                pass"),
]

MUTATIONS += [
    # ---- C13
    dict(name="c13-logq-omitted-from-encode", file="samples.py", checks=["C13"],
         old="        dictionary = self.to_numpy().to_dict(flat=flat)\n", new="        dictionary = self.to_numpy().to_dict(flat=flat)\n        dictionary[\"log_q\"] = None\n"),
    dict(name="c13-dtype-redefaulted-on-load", file="samples.py", checks=["C13"],
         old="        dictionary[\"dtype\"] = decode_dtype(\n            dictionary[\"xp\"], dictionary[\"dtype\"]\n        )", new="        dictionary[\"dtype\"] = None"),
    dict(name="c13-none-sentinel-misdecoded", file="utils.py", checks=["C13"],
         old="        if value == \"__none__\":\n            return None", new="        if value == \"__none__\":\n            return \"None\""),
    dict(name="c13-history-var-series-dropped", file="history.py", checks=["C13"],
         old="        dictionary[\"__len_sample_history\"] = len(sample_history)", new="        dictionary[\"__len_sample_history\"] = len(sample_history)\n        dictionary[\"log_norm_ratio_var\"] = []"),
    dict(name="c13-history-last-population-lost", file="history.py", checks=["C13"],
         old="        dictionary[\"__len_sample_history\"] = len(sample_history)", new="        dictionary[\"__len_sample_history\"] = max(len(sample_history) - 1, 0)"),
    dict(name="c13-affine-std-not-loaded", file="transforms.py", checks=["C13"],
         old="        self._std = asarray(h5_file[\"std\"][()], xp=self.xp)", new="        self._std = asarray(h5_file[\"std\"][()] * 0 + 1, xp=self.xp)"),
    dict(name="c13-config-eps-missing", file="aspire.py", checks=["C13"],
         old="            \"eps\": self.eps,\n", new=""),
    dict(name="c13-periodic-params-not-saved", file="aspire.py", checks=["C13"],
         old="            \"periodic_parameters\": self.periodic_parameters,", new="            \"periodic_parameters\": None,"),
    dict(name="c13-flow-weights-cast", file="flows/torch/flows.py", checks=["C13"],
         old="            weights_grp.create_dataset(name, data=tensor.cpu().numpy())", new="            weights_grp.create_dataset(name, data=tensor.cpu().numpy().astype(\"float16\") if tensor.dtype.is_floating_point else tensor.cpu().numpy())"),
    dict(name="c13-smc-beta-not-saved", file="samples.py", checks=["C13"],
         old="        dictionary[\"xp\"] = self.xp.__name__\n        return dictionary", new="        dictionary[\"xp\"] = self.xp.__name__\n        if \"beta\" in dictionary:\n            dictionary[\"beta\"] = None\n        return dictionary"),
    dict(name="c13-strings-list-joined", file="utils.py", checks=["C13"],
         old="                return value.astype(str).tolist()", new="                return [v.strip() for v in value.astype(str).tolist()]"),
]

MUTATIONS += [
    # ---- C19
    dict(name="c19-pool-restore-only-on-success", file="utils.py", checks=["C19"],
         old="    def __exit__(self, exc_type, exc_value, traceback):\n        self.aspire_instance.log_likelihood = self.original_log_likelihood\n        self.aspire_instance.log_prior = self.original_log_prior",
         new="    def __exit__(self, exc_type, exc_value, traceback):\n        if exc_type is None:\n            self.aspire_instance.log_likelihood = self.original_log_likelihood\n        self.aspire_instance.log_prior = self.original_log_prior"),
    dict(name="c19-prior-not-restored", file="utils.py", checks=["C19"],
         old="        self.aspire_instance.log_prior = self.original_log_prior\n        if self.close_pool:", new="        if not self.parallelize_prior:\n            self.aspire_instance.log_prior = self.original_log_prior\n        if self.close_pool:"),
    dict(name="c19-pool-closed-unconditionally-on-error", file="utils.py", checks=["C19"],
         old="        if self.close_pool:\n            logger.debug(\"Closing pool\")", new="        if self.close_pool or exc_type is not None:\n            logger.debug(\"Closing pool\")"),
    dict(name="c19-ckpt-restore-outside-finally", file="aspire.py", checks=["C19"],
         old="        try:\n            yield self\n        finally:\n            if prev is None:", new="        yield self\n        if True:\n            if prev is None:"),
    dict(name="c19-ckpt-restore-to-none", file="aspire.py", checks=["C19"],
         old="            else:\n                self._checkpoint_defaults = prev", new="            else:\n                if hasattr(self, \"_checkpoint_defaults\"):\n                    delattr(self, \"_checkpoint_defaults\")"),
    dict(name="c19-nested-pool-wraps-partial", file="utils.py", checks=["C19"],
         old="    def __enter__(self):\n        self.original_log_likelihood = self.aspire_instance.log_likelihood", new="    def __enter__(self):\n        self.original_log_likelihood = getattr(self.aspire_instance.log_likelihood, \"func\", self.aspire_instance.log_likelihood)"),
]

MUTATIONS += [
    # ---- C03
    dict(name="c03-zuko-logprob-jac-sign", file="flows/torch/flows.py", checks=["C03"],
         old="            log_prob = self._flow().log_prob(x_prime) + log_abs_det_jacobian", new="            log_prob = self._flow().log_prob(x_prime) - log_abs_det_jacobian"),
    dict(name="c03-flowjax-sample-jac-dropped", file="flows/jax/flows.py", checks=["C03"],
         old="        return xp.asarray(x), xp.asarray(log_prob - log_abs_det_jacobian)", new="        return xp.asarray(x), xp.asarray(log_prob)"),
    dict(name="c03-unit-scale-missing-inverse", file="transforms.py", checks=["C03", "C04"],
         old="        log_j = -self._scale_log_abs_det_jacobian * self.xp.ones(\n            x.shape[0], device=get_device(x)\n        )", new="        log_j = 0.0 * self._scale_log_abs_det_jacobian * self.xp.ones(\n            x.shape[0], device=get_device(x)\n        )"),
    dict(name="c03-affine-logdet-uses-var", file="transforms.py", checks=["C03", "C04"],
         old="        self.log_abs_det_jacobian = -self.xp.log(self.xp.abs(self._std)).sum()\n        return self.forward(x)[0]", new="        self.log_abs_det_jacobian = -self.xp.log(self.xp.abs(self._std) ** 2).sum()\n        return self.forward(x)[0]"),
    dict(name="c03-load-affine-jacobian-stale", file="transforms.py", checks=["C03", "C13"],
         old="        self._std = asarray(h5_file[\"std\"][()], xp=self.xp)\n        self.log_abs_det_jacobian = -self.xp.log(self.xp.abs(self._std)).sum()", new="        self._std = asarray(h5_file[\"std\"][()], xp=self.xp)\n        self.log_abs_det_jacobian = -self.xp.log(self.xp.abs(self._mean) + 1).sum()"),
    dict(name="c03-sample-flow-logq-from-other-draw", file="aspire.py", checks=["C03"],
         old="        x, log_q = self.flow.sample_and_log_prob(n_samples)\n        samples = Samples(", new="        x, log_q = self.flow.sample_and_log_prob(n_samples)\n        x = self.flow.sample_and_log_prob(n_samples)[0]\n        samples = Samples("),
]
