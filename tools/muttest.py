#!/venv/bin/python
"""Self-validation of the monitors (DESIGN section 6): apply each edit of the break-it list to a
scratch copy of /repo/src (never to /repo), run the named checks against it through ASPIRE_REPO,
report detected / missed.   usage: tools/muttest.py [-k substr] [--tier quick] [--list]"""
import argparse
import os
import shutil
import subprocess
import sys
import tempfile

HERE = os.path.dirname(os.path.abspath(__file__))
VERIF = os.path.dirname(HERE)
sys.path.insert(0, HERE)
from mutations import MUTATIONS  # noqa: E402


def main():
    ap = argparse.ArgumentParser()
    ap.add_argument("-k", default="")
    ap.add_argument("--tier", default="quick")
    ap.add_argument("--list", action="store_true")
    ap.add_argument("--seed", default="0")
    a = ap.parse_args()
    muts = [m for m in MUTATIONS if a.k in m["name"] or a.k in ",".join(m["checks"])]
    if a.list:
        for m in muts:
            print(m["name"], m["checks"])
        return
    results = []
    for m in muts:
        d = tempfile.mkdtemp(prefix="avmut-")
        try:
            shutil.copytree("/repo/src", os.path.join(d, "src"))
            p = os.path.join(d, "src", "aspire", m["file"])
            s = open(p).read()
            if m["old"] not in s:
                print(f"!! {m['name']}: pattern not found in {m['file']}")
                results.append((m["name"], "PATTERN-MISSING"))
                continue
            s = s.replace(m["old"], m["new"], 1)
            open(p, "w").write(s)
            for cid in m["checks"]:
                env = dict(os.environ, ASPIRE_REPO=d, VERIF_NO_EVIDENCE="1", VERIF_SEED=a.seed)
                r = subprocess.run([os.path.join(VERIF, "check"), cid, "--tier", a.tier], capture_output=True, text=True, env=env, cwd=VERIF)
                mechs = sorted({ln.split("mech=")[1].split(" ")[0] for ln in r.stdout.splitlines() if "mech=" in ln})
                status = {0: "MISSED", 1: "DETECTED", 2: "INCONCLUSIVE"}.get(r.returncode, f"rc={r.returncode}")
                print(f"{m['name']:45s} {cid} {status} {mechs[:4]}")
                results.append((m["name"] + ":" + cid, status))
        finally:
            shutil.rmtree(d, ignore_errors=True)
    missed = [r for r in results if r[1] != "DETECTED"]
    print(f"\n{len(results)-len(missed)}/{len(results)} detected; not detected: {missed}")


if __name__ == "__main__":
    main()
